#!/usr/bin/env python3
"""writes the table of runs per property and tier (from checks.json) into DESIGN.md between the
markers <!-- RUNS-BEGIN --> and <!-- RUNS-END -->."""
import json, os, re
ROOT = os.path.dirname(os.path.abspath(__file__))
d = json.load(open(os.path.join(ROOT, "checks.json")))
lines = ["| property | quick tier: harness(arguments) | thorough tier adds |", "|---|---|---|"]
def fmt(r):
    s = "%s(%s)" % (r["entry"], ",".join(str(a) for a in r.get("args", [])))
    if r.get("race"): s += " +race"
    if r.get("diff"): s += " +diff"
    if r.get("native_only"): s += " [native only]"
    return s
for pid in sorted(k for k in d if isinstance(d[k], dict) and "quick" in d[k]):
    q = d[pid]["quick"]; t = d[pid].get("thorough", [])
    extra = [r for r in t if not any(x["entry"] == r["entry"] and x.get("args") == r.get("args") for x in q)]
    lines.append("| %s | %s | %s |" % (pid, "; ".join(fmt(r) for r in q), "; ".join(fmt(r) for r in extra) or "- (same runs; more native vectors; known findings replayed natively)"))
p = os.path.join(ROOT, "DESIGN.md"); s = open(p).read()
block = "<!-- RUNS-BEGIN -->\n" + "\n".join(lines) + "\n<!-- RUNS-END -->"
if "<!-- RUNS-BEGIN -->" in s:
    s = re.sub(r"<!-- RUNS-BEGIN -->.*?<!-- RUNS-END -->", lambda m: block, s, flags=re.S)
else:
    raise SystemExit("markers missing")
open(p, "w").write(s)
print("runs table written:", len(lines) - 2, "properties")
