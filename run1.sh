#!/bin/bash
# development aid: run1.sh <Entry> <args> [extra symgo flags]  (root package harness, engine only)
export GOFLAGS=-mod=mod GOPROXY=off GOSUMDB=off GOTOOLCHAIN=local
E=$1; A=$2; shift 2
R=${VERIF_REPO:-/repo}
/verif/bin/symgo -repo $R -harness /verif/harness -pkgs . -entry github.com/relab/gorums.$E -args "$A" -workers 16 -init context,google.golang.org/grpc/backoff,google.golang.org/grpc/codes,github.com/relab/gorums -out /tmp/run1-$E.json "$@" > /tmp/run1-$E.log 2>&1
python3 /verif/show.py /tmp/run1-$E.json | cut -c1-400 | head -${LINES_MAX:-30}
