package symgo

// Persistent-set reduction (DESIGN 3.5, added in the implementation round).
//
// At a scheduling state the engine looks for a set T of goroutines such that no goroutine
// outside T can, now or in the future, perform an operation on any synchronisation object
// that the *pending* operations of T's members touch. "Can in the future" is
// over-approximated by heap reachability: a goroutine can only ever touch an object it can
// reach from its live registers (or that is reachable from a repository global, or that a
// member of T hands to it — which needs a transition of T). The enabled transitions of T's
// members then form a persistent set: every transition reachable from the state without
// executing a transition of the set is independent of the set. Exploring only that set
// preserves all deadlocks, assertion failures (assertions are evaluated inside transitions)
// and quiescent states. A goroutine parked at vQuiescent is inert: its future transitions
// cannot happen while anything else is enabled.
//
// Blocked members are handled by closure: when a goroutine joins T its pending operation's
// objects are added, so everything that could unblock it joins too.

type reachInfo struct {
	// mask[obj] = bitmask of goroutine indices (in st.gs order) that can reach obj;
	// bit 63 = reachable from a repository global
	mask map[ObjID]uint64
}

const globalBit = uint64(1) << 63

func (e *Engine) walkValue(st *State, v Value, bit uint64, ri *reachInfo, stack *[]ObjID) {
	switch x := v.(type) {
	case Ptr:
		e.markObj(x.Obj, bit, ri, stack)
	case Tuple:
		for _, y := range x {
			e.walkValue(st, y, bit, ri, stack)
		}
	case Slice:
		e.markObj(x.Base.Obj, bit, ri, stack)
	case Iface:
		if x.T != nil {
			e.walkValue(st, x.V, bit, ri, stack)
		}
	case *Closure:
		if x != nil {
			for _, y := range x.Bind {
				e.walkValue(st, y, bit, ri, stack)
			}
		}
	case MapRef:
		e.markObj(x.Obj, bit, ri, stack)
	case ChanRef:
		e.markObj(x.Obj, bit, ri, stack)
	case *MapObj:
		for _, en := range x.Entries {
			e.walkValue(st, en.K, bit, ri, stack)
			e.walkValue(st, en.V, bit, ri, stack)
		}
	case *ChanObj:
		for _, y := range x.Buf {
			e.walkValue(st, y, bit, ri, stack)
		}
	case *rangeIter:
		e.walkValue(st, x.Map, bit, ri, stack)
		for _, k := range x.Keys {
			e.walkValue(st, k, bit, ri, stack)
		}
	}
}

func (e *Engine) markObj(id ObjID, bit uint64, ri *reachInfo, stack *[]ObjID) {
	if id.IsNil() {
		return
	}
	m := ri.mask[id]
	if m&bit != 0 {
		return
	}
	ri.mask[id] = m | bit
	*stack = append(*stack, id)
}

func (e *Engine) drain(st *State, bit uint64, ri *reachInfo, stack *[]ObjID) {
	for len(*stack) > 0 {
		id := (*stack)[len(*stack)-1]
		*stack = (*stack)[:len(*stack)-1]
		e.walkValue(st, st.obj(id), bit, ri, stack)
	}
}

// computeReach computes, per heap object, which goroutines can reach it.
func (e *Engine) computeReach(st *State) *reachInfo {
	ri := &reachInfo{mask: make(map[ObjID]uint64, 256)}
	var stack []ObjID
	// repository globals (overlay globals are excluded: puppet state is only touched by
	// goroutines that also hold a direct reference, see DESIGN 3.5)
	for _, gl := range e.globalsBy {
		if e.overlayGlobal[gl] {
			continue
		}
		id := ObjID{G: 0, N: e.globals[gl]}
		if st.obj(id) != nil {
			e.markObj(id, globalBit, ri, &stack)
		}
	}
	e.drain(st, globalBit, ri, &stack)
	for gi, g := range st.gs {
		if g.Status == gDone || gi >= 62 {
			continue
		}
		bit := uint64(1) << uint(gi)
		for _, fr := range g.Frames {
			lv := e.live.liveAt(e, fr)
			for i, v := range fr.Env {
				if v == nil || (lv != nil && !lv[i]) {
					continue
				}
				e.walkValue(st, v, bit, ri, &stack)
			}
			for _, d := range fr.Defers {
				e.walkValue(st, d.Fn, bit, ri, &stack)
				for _, a := range d.Args {
					e.walkValue(st, a, bit, ri, &stack)
				}
			}
		}
		if g.Pending != nil {
			if g.Pending.Val != nil {
				e.walkValue(st, g.Pending.Val, bit, ri, &stack)
			}
			for _, c := range g.Pending.Cases {
				if c.Val != nil {
					e.walkValue(st, c.Val, bit, ri, &stack)
				}
			}
		}
		e.drain(st, bit, ri, &stack)
	}
	return ri
}

// opObjects lists the objects a pending operation touches (all select cases included).
func (e *Engine) opObjects(st *State, op *Op) ([]ObjID, bool) {
	switch op.Kind {
	case opSend, opRecv, opClose:
		if c := st.chanObj(ChanRef{op.Ch}); c != nil && c.EnvTick {
			return nil, true // environment: treated as touching everything
		}
		return []ObjID{op.Ch}, false
	case opSelect:
		var out []ObjID
		for _, c := range op.Cases {
			if c.Ch.IsNil() {
				continue
			}
			if ch := st.chanObj(ChanRef{c.Ch}); ch != nil && ch.EnvTick {
				return nil, true
			}
			out = append(out, c.Ch)
		}
		return out, false
	case opVAtomic:
		if op.Universal {
			return nil, true
		}
		objs := op.Objs
		if op.DynRoot != nil {
			objs = e.dynObjs(st, *op.DynRoot)
		}
		out := make([]ObjID, len(objs))
		for i, k := range objs {
			out[i] = k.Obj
		}
		return out, false
	case opQuiescent:
		return nil, true
	}
	return []ObjID{op.Obj.Obj}, false
}

// dynObjs: the root object plus every channel reachable from it.
func (e *Engine) dynObjs(st *State, root Ptr) []ObjKey {
	ri := &reachInfo{mask: map[ObjID]uint64{}}
	var stack []ObjID
	e.markObj(root.Obj, 1, ri, &stack)
	e.drain(st, 1, ri, &stack)
	out := []ObjKey{{Obj: root.Obj}}
	for id := range ri.mask {
		if _, ok := st.obj(id).(*ChanObj); ok {
			out = append(out, ObjKey{Obj: id})
		}
	}
	// canonical order
	for i := 1; i < len(out); i++ {
		for j := i; j > 1 && (out[j].Obj.G < out[j-1].Obj.G || (out[j].Obj.G == out[j-1].Obj.G && out[j].Obj.N < out[j-1].Obj.N)); j-- {
			out[j], out[j-1] = out[j-1], out[j]
		}
	}
	return out
}

// persistentSet returns a subset of trans that is a persistent set (or trans itself).
func (e *Engine) persistentSet(st *State, trans []Trans) []Trans {
	if len(trans) <= 1 {
		return trans
	}
	ngo := len(st.gs)
	if ngo >= 62 {
		return trans
	}
	// goroutine index by id, enabled transitions per goroutine (partners count too)
	idx := make(map[uint32]int, ngo)
	for i, g := range st.gs {
		idx[g.ID] = i
	}
	enabledOf := make([][]int, ngo)
	for ti := range trans {
		gi := idx[trans[ti].G]
		enabledOf[gi] = append(enabledOf[gi], ti)
	}
	ri := e.computeReach(st)
	// per goroutine: objects of its pending op
	type gobj struct {
		objs []ObjID
		univ bool
	}
	pend := make([]gobj, ngo)
	active := make([]bool, ngo) // not done, not inert
	for i, g := range st.gs {
		if g.Status == gDone || g.Pending == nil {
			continue
		}
		if g.Pending.Kind == opQuiescent {
			continue // inert
		}
		active[i] = true
		o, u := e.opObjects(st, g.Pending)
		pend[i] = gobj{o, u}
	}
	best := -1
	var bestSet []int
	bestCount := len(trans)
	for cand := 0; cand < ngo; cand++ {
		if len(enabledOf[cand]) == 0 || !active[cand] {
			continue
		}
		inT := make([]bool, ngo)
		work := []int{cand}
		inT[cand] = true
		all := false
		for len(work) > 0 && !all {
			h := work[len(work)-1]
			work = work[:len(work)-1]
			if pend[h].univ {
				all = true
				break
			}
			// rendezvous partners of h's enabled transitions are part of the transition
			for _, ti := range enabledOf[h] {
				if p := trans[ti].Partner; p != 0 {
					pi := idx[p]
					if !inT[pi] {
						inT[pi] = true
						work = append(work, pi)
					}
				}
			}
			for _, o := range pend[h].objs {
				m := ri.mask[o]
				if m&globalBit != 0 {
					all = true
					break
				}
				for k := 0; k < ngo; k++ {
					if !inT[k] && active[k] && m&(uint64(1)<<uint(k)) != 0 {
						inT[k] = true
						work = append(work, k)
					}
				}
			}
		}
		if all {
			continue
		}
		cnt := 0
		for k := 0; k < ngo; k++ {
			if inT[k] {
				cnt += len(enabledOf[k])
			}
		}
		if cnt > 0 && cnt < bestCount {
			bestCount = cnt
			best = cand
			bestSet = bestSet[:0]
			for k := 0; k < ngo; k++ {
				if inT[k] {
					bestSet = append(bestSet, enabledOf[k]...)
				}
			}
			if cnt == 1 {
				break
			}
		}
	}
	if best < 0 {
		return trans
	}
	out := make([]Trans, 0, len(bestSet))
	for _, ti := range bestSet {
		out = append(out, trans[ti])
	}
	return out
}
