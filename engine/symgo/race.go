package symgo

import (
	"fmt"
	"sort"
)

// Race monitor (DESIGN 3.5): clock-free happens-before tracking.
//
// Every plain load/store executed by repository (non-overlay) code is recorded on the memory
// location it touches (heap object + access path; a map is one location). Only the *live*
// records of a location are kept: the last write and the reads since. Happens-before is
// tracked without clock values so that it can be part of the cached state: every goroutine and
// every synchronisation object carries the set of live records it *knows* (release: object's
// set ∪= goroutine's; acquire: goroutine's set ∪= object's); an access races with a conflicting
// live record of another goroutine that the accessing goroutine does not know.
// Edges: go, channel send→receive (per message), receive→(k+C)-th send, rendezvous (both ways),
// close→receive-of-closed, Unlock→Lock, RUnlock→Lock, Unlock→RLock, atomic store/rmw→atomic
// load/rmw, Once.Do, WaitGroup Done→Wait, harness atomic sections on their declared objects.

type recID uint64

type accessRec struct {
	id    recID
	path  []int32
	write bool
	g     uint32
	pos   string
	fn    string
}

type kset []recID // sorted, immutable

func (a kset) has(x recID) bool {
	i := sort.Search(len(a), func(i int) bool { return a[i] >= x })
	return i < len(a) && a[i] == x
}

func (a kset) union(b kset) kset {
	if len(b) == 0 {
		return a
	}
	if len(a) == 0 {
		return b
	}
	out := make(kset, 0, len(a)+len(b))
	i, j := 0, 0
	for i < len(a) && j < len(b) {
		switch {
		case a[i] == b[j]:
			out = append(out, a[i])
			i++
			j++
		case a[i] < b[j]:
			out = append(out, a[i])
			i++
		default:
			out = append(out, b[j])
			j++
		}
	}
	out = append(out, a[i:]...)
	out = append(out, b[j:]...)
	return out
}

func (a kset) add(x recID) kset {
	if a.has(x) {
		return a
	}
	return a.union(kset{x})
}

func (a kset) without(dead map[recID]bool) kset {
	n := 0
	for _, x := range a {
		if dead[x] {
			n++
		}
	}
	if n == 0 {
		return a
	}
	out := make(kset, 0, len(a)-n)
	for _, x := range a {
		if !dead[x] {
			out = append(out, x)
		}
	}
	return out
}

type chanK struct {
	buf   []kset // knowledge travelling with each buffered message
	recvK []kset // knowledge of receives not yet matched by the (k+C)-th send
	close kset
	sends int // completed buffered sends, saturating at cap+1
}

type raceState struct {
	live map[ObjID][]accessRec
	kg   map[uint32]kset // goroutine knowledge (own records are implicit)
	ko   map[ObjKey]kset // sync object knowledge (writers / general)
	kr   map[ObjKey]kset // RWMutex: knowledge released by readers
	kc   map[ObjID]*chanK
}

func newRaceState() *raceState {
	return &raceState{live: map[ObjID][]accessRec{}, kg: map[uint32]kset{}, ko: map[ObjKey]kset{}, kr: map[ObjKey]kset{}, kc: map[ObjID]*chanK{}}
}

func (r *raceState) clone() *raceState {
	n := &raceState{live: make(map[ObjID][]accessRec, len(r.live)), kg: make(map[uint32]kset, len(r.kg)),
		ko: make(map[ObjKey]kset, len(r.ko)), kr: make(map[ObjKey]kset, len(r.kr)), kc: make(map[ObjID]*chanK, len(r.kc))}
	for k, v := range r.live {
		n.live[k] = v
	}
	for k, v := range r.kg {
		n.kg[k] = v
	}
	for k, v := range r.ko {
		n.ko[k] = v
	}
	for k, v := range r.kr {
		n.kr[k] = v
	}
	for k, v := range r.kc {
		c := *v
		n.kc[k] = &c
	}
	return n
}

func (r *raceState) hash() (uint64, uint64) {
	var a, b uint64
	for o, recs := range r.live {
		for _, x := range recs {
			a += mix(uint64(o.G)<<32|uint64(o.N), uint64(x.id))
		}
	}
	hs := func(k kset) uint64 {
		var h uint64 = 11
		for _, x := range k {
			h = mix(h, uint64(x))
		}
		return h
	}
	for g, k := range r.kg {
		b += mix(uint64(g), hs(k))
	}
	for o, k := range r.ko {
		b += mix(mix(uint64(o.Obj.G)<<32|uint64(o.Obj.N), o.P), hs(k))
	}
	for o, k := range r.kr {
		b += mix(mix(uint64(o.Obj.G)<<32|uint64(o.Obj.N), o.P)+1, hs(k))
	}
	for o, c := range r.kc {
		h := mix(hs(c.close), uint64(c.sends))
		for _, k := range c.buf {
			h = mix(h, hs(k))
		}
		for _, k := range c.recvK {
			h = mix(h, hs(k)+3)
		}
		a += mix(uint64(o.G)<<32|uint64(o.N)+7, h)
	}
	return a, b
}

// own returns the live records made by goroutine g.
func (r *raceState) own(g uint32) kset {
	var out kset
	for _, recs := range r.live {
		for _, x := range recs {
			if x.g == g {
				out = append(out, x.id)
			}
		}
	}
	sort.Slice(out, func(i, j int) bool { return out[i] < out[j] })
	return out
}

// view is what goroutine g can pass on: its knowledge plus its own records.
func (r *raceState) view(g *G) kset { return r.kg[g.ID].union(r.own(g.ID)) }

func (r *raceState) acquireSet(g *G, k kset) {
	if len(k) > 0 {
		r.kg[g.ID] = r.kg[g.ID].union(k)
	}
}

func (r *raceState) onGo(parent, child *G) { r.kg[child.ID] = r.view(parent) }

func (r *raceState) onRendezvous(a, b *G) {
	va, vb := r.view(a), r.view(b)
	r.acquireSet(a, vb)
	r.acquireSet(b, va)
}

func (r *raceState) ck(ch ObjID) *chanK {
	c := r.kc[ch]
	if c == nil {
		c = &chanK{}
		r.kc[ch] = c
	}
	return c
}

func (r *raceState) onSend(g *G, ch ObjID, c *ChanObj) {
	k := r.ck(ch)
	// the (n)-th send (n > C) completes after the (n-C)-th receive
	if k.sends >= c.Cap && len(k.recvK) > 0 {
		r.acquireSet(g, k.recvK[0])
		k.recvK = append([]kset{}, k.recvK[1:]...)
	}
	if k.sends <= c.Cap {
		k.sends++
	}
	k.buf = append(append([]kset{}, k.buf...), r.view(g))
}

func (r *raceState) onRecv(g *G, ch ObjID, c *ChanObj) {
	k := r.ck(ch)
	if len(k.buf) > 0 {
		r.acquireSet(g, k.buf[0])
		k.buf = append([]kset{}, k.buf[1:]...)
	}
	k.recvK = append(append([]kset{}, k.recvK...), r.view(g))
}

func (r *raceState) onRecvClosed(g *G, ch ObjID) { r.acquireSet(g, r.ck(ch).close) }
func (r *raceState) onClose(g *G, ch ObjID) {
	k := r.ck(ch)
	k.close = k.close.union(r.view(g))
}

func (r *raceState) onAcquire(g *G, k ObjKey) {
	r.acquireSet(g, r.ko[k])
	r.acquireSet(g, r.kr[k])
}

// onAcquireRead: RLock sees what writers released, not what other readers released.
func (r *raceState) onAcquireRead(g *G, k ObjKey) { r.acquireSet(g, r.ko[k]) }

func (r *raceState) onRelease(g *G, k ObjKey)     { r.ko[k] = r.ko[k].union(r.view(g)) }
func (r *raceState) onReleaseRead(g *G, k ObjKey) { r.kr[k] = r.kr[k].union(r.view(g)) }

// onBarrier: vQuiescent — everything that could happen has happened; the harness goroutine
// observes the world like after joining every other goroutine.
func (r *raceState) onBarrier(st *State, g *G) {
	k := r.kg[g.ID]
	for _, h := range st.gs {
		if h != g {
			k = k.union(r.view(h))
		}
	}
	for _, o := range r.ko {
		k = k.union(o)
	}
	for _, o := range r.kr {
		k = k.union(o)
	}
	r.kg[g.ID] = k
}

func pathConflict(a, b []int32) bool {
	n := len(a)
	if len(b) < n {
		n = len(b)
	}
	for i := 0; i < n; i++ {
		if a[i] != b[i] {
			return false
		}
	}
	return true // one is a prefix of the other (or equal)
}

// access records a plain access and reports races.
func (e *Engine) raceAccess(st *State, g *G, fr *Frame, p Ptr, write bool) {
	r := st.race
	if r == nil || fr == nil || !fr.Info.repo {
		return
	}
	if p.Obj.G == 0 {
		// package-level variables are initialised before main and read-only in this code base,
		// except where written by the library: monitored as well
	}
	pos := e.posStr(e.instrPos(fr))
	recs := r.live[p.Obj]
	know := r.kg[g.ID]
	var dead map[recID]bool
	var keep []accessRec
	for _, x := range recs {
		if !pathConflict(x.path, p.Path) {
			keep = append(keep, x)
			continue
		}
		if x.g != g.ID && (x.write || write) && !know.has(x.id) {
			e.reportRace(st, g, fr, p, write, pos, x)
		}
		if write || (x.g == g.ID && !x.write) {
			// a write supersedes every conflicting record; a read supersedes the goroutine's
			// own earlier read of the location
			if dead == nil {
				dead = map[recID]bool{}
			}
			dead[x.id] = true
			continue
		}
		keep = append(keep, x)
	}
	h := mix(mix(uint64(p.Obj.G)<<32|uint64(p.Obj.N), uint64(g.ID)), hashStr(pos))
	for _, i := range p.Path {
		h = mix(h, uint64(i)+1)
	}
	if write {
		h = mix(h, 0x77)
	}
	rec := accessRec{id: recID(h), path: p.Path, write: write, g: g.ID, pos: pos, fn: fr.Fn.String()}
	keep = append(keep, rec)
	r.live[p.Obj] = keep
	if len(dead) > 0 {
		delete(dead, rec.id)
		for k, v := range r.kg {
			r.kg[k] = v.without(dead)
		}
		for k, v := range r.ko {
			r.ko[k] = v.without(dead)
		}
		for k, v := range r.kr {
			r.kr[k] = v.without(dead)
		}
		for _, c := range r.kc {
			c.close = c.close.without(dead)
			for i := range c.buf {
				c.buf[i] = c.buf[i].without(dead)
			}
			for i := range c.recvK {
				c.recvK[i] = c.recvK[i].without(dead)
			}
		}
	}
}

func (e *Engine) reportRace(st *State, g *G, fr *Frame, p Ptr, write bool, pos string, prev accessRec) {
	kind := func(w bool) string {
		if w {
			return "write"
		}
		return "read"
	}
	fn := fr.Fn.String()
	a := fmt.Sprintf("%s by g%d in %s at %s", kind(write), g.ID, fn, pos)
	b := fmt.Sprintf("%s by g%d in %s at %s", kind(prev.write), prev.g, prev.fn, prev.pos)
	// canonical id: the two source positions, ordered
	x, y := pos, prev.pos
	if y < x {
		x, y = y, x
	}
	f := &Failure{Kind: "race", ID: "race " + x + " / " + y, Pos: pos, Detail: a + " conflicts with " + b + " (no happens-before order)", Stack: e.stackOf(g)}
	e.recordFailure(st, f)
}
