package symgo

// Race monitor (clock-free happens-before knowledge sets). Placeholder: filled in later.
type raceState struct{}

func newRaceState() *raceState                         { return &raceState{} }
func (r *raceState) clone() *raceState                 { return r }
func (r *raceState) hash() (uint64, uint64)            { return 0, 0 }
func (r *raceState) onGo(parent, child *G)             {}
func (r *raceState) onRendezvous(a, b *G)              {}
func (r *raceState) onSend(g *G, ch ObjID, c *ChanObj) {}
func (r *raceState) onRecv(g *G, ch ObjID, c *ChanObj) {}
func (r *raceState) onRecvClosed(g *G, ch ObjID)       {}
func (r *raceState) onClose(g *G, ch ObjID)            {}
func (r *raceState) onAcquire(g *G, k ObjKey)          {}
func (r *raceState) onRelease(g *G, k ObjKey)          {}
func (r *raceState) onReleaseRead(g *G, k ObjKey)      {}
func (r *raceState) onBarrier(st *State, g *G)         {}

func (e *Engine) raceAccess(st *State, g *G, fr *Frame, p Ptr, write bool) {}
