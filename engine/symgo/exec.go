package symgo

import (
	"fmt"
	"go/constant"
	"go/token"
	"go/types"
	"math"
	"strings"

	"golang.org/x/tools/go/ssa"
)

// control-flow signals raised with Go panics inside the interpreter
type abort struct {
	kind string // "unsupported", "bound", "internal", "infeasible", "inconclusive"
	msg  string
	pos  token.Pos
}

type forkReq struct {
	kind   string
	desc   string
	alts   []int    // indices of feasible alternatives
	lits   []*Term  // literal per original alternative
	vals   []uint64 // optional: concrete value per original alternative
	models []*Model // optional: model per original alternative
}

type parkReq struct{}

type failReq struct{ f *Failure }

type evKind int

const (
	evVisible  evKind = iota // goroutine parked in front of a visible op
	evExit                   // goroutine finished
	evFork                   // data fork requested
	evFail                   // violation candidate (assert, panic, fatal)
	evAbort                  // unsupported / bound / inconclusive: run cannot give a verdict on this path
	evPruned                 // path ended (assume false / infeasible)
	evMainDone               // harness main returned
)

type Event struct {
	Kind evKind
	Fork *forkReq
	Fail *Failure
	Ab   *abort
}

type Failure struct {
	Kind    string // "assert", "panic", "fatal", "deadlock", "race"
	ID      string // assertion id / panic message
	Pos     string
	Detail  string
	Model   map[string]uint64
	Decs    []*decision
	Known   []string // known-finding regions active on the path
	Stack   []string
	Blocked []string             // parked goroutines at the time of the failure: "<function>:<op>"
	Gids    map[uint32][2]uint32 // goroutine id -> (parent id, n-th goroutine started by the parent)
}

func (e *Engine) posStr(p token.Pos) string {
	if !p.IsValid() {
		return "?"
	}
	pp := e.prog.Fset.Position(p)
	return fmt.Sprintf("%s:%d", pp.Filename, pp.Line)
}

func unsupported(pos token.Pos, f string, a ...interface{}) {
	panic(abort{kind: "unsupported", msg: fmt.Sprintf(f, a...), pos: pos})
}

// run executes goroutine g until it parks, exits, forks or fails.
func (e *Engine) run(w *Worker, st *State, g *G) (ev Event) {
	defer func() {
		if r := recover(); r != nil {
			switch x := r.(type) {
			case forkReq:
				ev = Event{Kind: evFork, Fork: &x}
			case parkReq:
				ev = Event{Kind: evVisible}
			case abort:
				if x.kind == "infeasible" || x.kind == "assume" {
					ev = Event{Kind: evPruned}
				} else {
					if x.pos == token.NoPos && len(g.Frames) > 0 {
						fr := g.Frames[len(g.Frames)-1]
						if fr.PC < len(fr.Block.Instrs) {
							x.pos = e.instrPos(fr)
						}
					}
					if st := e.stackOf(g); len(st) > 0 {
						n := len(st)
						if n > 5 {
							n = 5
						}
						x.msg += " [stack: " + strings.Join(st[:n], " <- ") + "]"
					}
					ev = Event{Kind: evAbort, Ab: &x}
				}
			case failReq:
				ev = Event{Kind: evFail, Fail: x.f}
			default:
				panic(r)
			}
		}
	}()
	g.Status = gRunnable
	for {
		if len(g.Frames) == 0 {
			g.Status = gDone
			g.Pending = nil
			if g.IsMain {
				st.mainDone = true
				return Event{Kind: evMainDone}
			}
			return Event{Kind: evExit}
		}
		if g.Panic != nil {
			e.safely(func() { e.unwind(w, st, g) })
			continue
		}
		fr := g.Frames[len(g.Frames)-1]
		if fr.Unwinding && fr.Recovered {
			e.safely(func() { e.finishRecovered(w, st, g, fr) })
			continue
		}
		st.nInstr++
		if st.nInstr > e.cfg.MaxInstrPerPath {
			panic(abort{kind: "bound", msg: fmt.Sprintf("instruction budget %d per path exceeded", e.cfg.MaxInstrPerPath)})
		}
		instr := fr.Block.Instrs[fr.PC]
		e.execInstr(w, st, g, fr, instr)
	}
}

func (e *Engine) instrPos(fr *Frame) token.Pos {
	// nearest valid position at or before PC
	for i := fr.PC; i >= 0; i-- {
		if i < len(fr.Block.Instrs) {
			if p := fr.Block.Instrs[i].Pos(); p.IsValid() {
				return p
			}
		}
	}
	return fr.Fn.Pos()
}

func (e *Engine) stackOf(g *G) []string {
	var out []string
	for i := len(g.Frames) - 1; i >= 0; i-- {
		fr := g.Frames[i]
		out = append(out, fmt.Sprintf("%s (%s)", fr.Fn.String(), e.posStr(e.instrPos(fr))))
	}
	return out
}

// ---- operand evaluation ----

func (e *Engine) get(st *State, g *G, fr *Frame, v ssa.Value) Value {
	switch x := v.(type) {
	case *ssa.Const:
		return e.constVal(x)
	case *ssa.Function:
		return &Closure{Fn: x}
	case *ssa.Global:
		return Ptr{Obj: e.globalObj(st, g, x)}
	case *ssa.Builtin:
		return &Closure{Builtin: x.Name()}
	}
	i, ok := fr.Info.idx[v]
	if !ok {
		panic(abort{kind: "internal", msg: fmt.Sprintf("no register for %s in %s", v.Name(), fr.Fn)})
	}
	return fr.Env[i]
}

func (e *Engine) set(fr *Frame, v ssa.Value, val Value) {
	fr.Env[fr.Info.idx[v]] = val
}

func (e *Engine) constVal(c *ssa.Const) Value {
	t := c.Type()
	if c.Value == nil {
		return e.zero(t)
	}
	switch u := t.Underlying().(type) {
	case *types.Basic:
		switch {
		case u.Info()&types.IsBoolean != 0:
			return BoolC(constant.BoolVal(c.Value))
		case u.Info()&types.IsInteger != 0:
			w := e.intWidth(u)
			if u.Info()&types.IsUnsigned != 0 {
				x, _ := constant.Uint64Val(constant.ToInt(c.Value))
				return BV(w, x)
			}
			x, ok := constant.Int64Val(constant.ToInt(c.Value))
			if !ok {
				ux, _ := constant.Uint64Val(constant.ToInt(c.Value))
				return BV(w, ux)
			}
			return BV(w, uint64(x))
		case u.Info()&types.IsFloat != 0:
			f, _ := constant.Float64Val(c.Value)
			return Float(f)
		case u.Info()&types.IsString != 0:
			return Str{S: constant.StringVal(c.Value)}
		}
	}
	panic(abort{kind: "unsupported", msg: fmt.Sprintf("constant of type %v", t)})
}

// ---- Go-level panics ----

func (e *Engine) goPanic(st *State, g *G, val Value, msg string, pos token.Pos) {
	g.Panic = &panicState{Val: val, GoMsg: msg, Pos: pos, stack: e.stackOf(g)}
}

func (e *Engine) rtPanic(st *State, g *G, fr *Frame, msg string) {
	e.goPanic(st, g, Str{S: "runtime error: " + msg}, "runtime error: "+msg, e.instrPos(fr))
	panic(rtPanicSignal{})
}

type rtPanicSignal struct{}

// runTopDefer executes the top deferred call of fr: functions with bodies get a frame
// (the defer is popped first); builtins and intrinsics run inline and are popped after
// they complete, so that a parked visible operation is simply re-executed later.
func (e *Engine) runTopDefer(w *Worker, st *State, g *G, fr *Frame) {
	d := fr.Defers[len(fr.Defers)-1]
	pop := func() { fr.Defers = fr.Defers[:len(fr.Defers)-1] }
	c := d.Fn
	pos := fr.Fn.Pos()
	if c == nil {
		pop()
		e.goPanic(st, g, Str{S: "runtime error: invalid memory address or nil pointer dereference"}, "runtime error: invalid memory address or nil pointer dereference (nil deferred func)", pos)
		panic(rtPanicSignal{})
	}
	inline := func(f func()) {
		func() {
			defer func() {
				if r := recover(); r != nil {
					if _, ok := r.(rtPanicSignal); ok {
						pop()
					}
					panic(r)
				}
			}()
			f()
		}()
		pop()
	}
	if c.Builtin != "" {
		inline(func() { e.callBuiltin(w, st, g, nil, c.Builtin, d.Args, nil, pos) })
		return
	}
	fn := c.Fn
	if tgt := e.redirect(fn); tgt != nil {
		pop()
		e.pushFrame(st, g, tgt, d.Args, nil, fkDefer)
		return
	}
	if intr := e.intrinsicFor(fn); intr != nil {
		inline(func() {
			intr(&icall{e: e, w: w, st: st, g: g, fn: fn, args: d.Args, kind: fkDefer, posOverride: d.Pos})
		})
		return
	}
	pop()
	e.pushFrame(st, g, fn, d.Args, c.Bind, fkDefer)
}

// unwind performs one step of panic unwinding for goroutine g.
func (e *Engine) unwind(w *Worker, st *State, g *G) {
	fr := g.Frames[len(g.Frames)-1]
	if len(fr.Defers) > 0 {
		fr.Unwinding = true
		n := len(g.Frames)
		p := g.Panic
		e.runTopDefer(w, st, g, fr)
		if len(g.Frames) > n {
			// a real frame runs the deferred call; the panic is re-raised when it returns
			fr.pendingPanic = p
			g.Panic = nil
		}
		return
	}
	// no defers left: pop the frame
	if fr.Kind == fkExpectPanic {
		// caught by vExpectPanic: caller's call instruction gets true
		g.Frames = g.Frames[:len(g.Frames)-1]
		g.Panic = nil
		caller := g.Frames[len(g.Frames)-1]
		e.set(caller, caller.Block.Instrs[caller.PC].(ssa.Value), TrueT)
		caller.PC++
		return
	}
	if fr.Kind == fkRoot || len(g.Frames) == 1 {
		// crash of the whole program
		p := g.Panic
		f := &Failure{Kind: "panic", ID: p.GoMsg, Pos: e.posStr(p.Pos)}
		if f.ID == "" {
			f.ID = "panic: " + e.panicText(st, p.Val)
		}
		f.Stack = p.stack
		panic(failReq{f})
	}
	e.onceDone(st, g, fr)
	g.Frames = g.Frames[:len(g.Frames)-1]
}

// finishRecovered continues a frame whose panic was recovered: remaining defers run,
// then the function returns through its Recover block.
func (e *Engine) finishRecovered(w *Worker, st *State, g *G, fr *Frame) {
	if len(fr.Defers) > 0 {
		e.runTopDefer(w, st, g, fr)
		return
	}
	fr.Unwinding = false
	fr.Recovered = false
	fr.pendingPanic = nil
	if fr.Fn.Recover != nil {
		fr.Prev = fr.Block
		fr.Block = fr.Fn.Recover
		fr.PC = 0
		return
	}
	var zs []Value
	res := fr.Fn.Signature.Results()
	for i := 0; i < res.Len(); i++ {
		zs = append(zs, e.zero(res.At(i).Type()))
	}
	e.returnFrom(st, g, fr, zs)
}

func (e *Engine) safely(f func()) {
	defer func() {
		if r := recover(); r != nil {
			if _, ok := r.(rtPanicSignal); ok {
				return
			}
			panic(r)
		}
	}()
	f()
}

func (e *Engine) panicText(st *State, v Value) string {
	switch x := v.(type) {
	case Str:
		if !x.IsSym() {
			return x.S
		}
	case Iface:
		if x.T != nil {
			if s, ok := x.V.(Str); ok && !s.IsSym() {
				return s.S
			}
			return fmt.Sprintf("%v(%s)", x.T, valString(x.V))
		}
	}
	return valString(v)
}

// ---- calls ----

func (e *Engine) pushFrame(st *State, g *G, fn *ssa.Function, args []Value, bind []Value, kind frameKind) *Frame {
	if len(fn.Blocks) == 0 {
		panic(abort{kind: "unsupported", msg: "call of function without body: " + fn.String()})
	}
	fi := e.info(fn)
	fr := &Frame{Fn: fn, Info: fi, Block: fn.Blocks[0], Env: make([]Value, fi.n), Kind: kind}
	if len(args) != len(fn.Params) {
		panic(abort{kind: "internal", msg: fmt.Sprintf("arity mismatch calling %s: %d args, %d params", fn, len(args), len(fn.Params))})
	}
	for i, p := range fn.Params {
		fr.Env[fi.idx[p]] = args[i]
	}
	for i, fv := range fn.FreeVars {
		fr.Env[fi.idx[fv]] = bind[i]
	}
	if len(g.Frames) > 0 && g.Frames[len(g.Frames)-1].Lenient {
		fr.Lenient = true
	}
	if len(g.Frames) > 200 {
		panic(abort{kind: "bound", msg: "call depth exceeded"})
	}
	g.Frames = append(g.Frames, fr)
	return fr
}

// pushCall calls a closure value. For intrinsics/stubs with fkDefer/fkRoot kinds the
// intrinsic is executed immediately.
func (e *Engine) pushCall(w *Worker, st *State, g *G, c *Closure, args []Value, kind frameKind, pos token.Pos) {
	if c == nil {
		e.goPanic(st, g, Str{S: "runtime error: invalid memory address or nil pointer dereference"}, "runtime error: invalid memory address or nil pointer dereference (nil func call)", pos)
		panic(rtPanicSignal{})
	}
	if c.Builtin != "" {
		// deferred/go builtin call (e.g. defer close(ch))
		e.callBuiltin(w, st, g, nil, c.Builtin, args, nil, pos)
		return
	}
	fn := c.Fn
	if tgt := e.redirect(fn); tgt != nil {
		fn = tgt
	} else if in := e.intrinsicFor(fn); in != nil {
		// Intrinsic in a non-call context: run with a synthetic one-instruction frame.
		e.runIntrinsicDetached(w, st, g, fn, in, args, kind)
		return
	}
	e.pushFrame(st, g, fn, args, c.Bind, kind)
}

// returnFrom pops the top frame delivering results to the caller.
func (e *Engine) onceDone(st *State, g *G, fr *Frame) {
	if fr.Once != nil {
		st.store(oncePtr(st, *fr.Once), BV(32, 1))
		if st.race != nil {
			st.race.onRelease(g, keyOf(*fr.Once))
		}
	}
}

func (e *Engine) returnFrom(st *State, g *G, fr *Frame, results []Value) {
	e.onceDone(st, g, fr)
	g.Frames = g.Frames[:len(g.Frames)-1]
	if len(g.Frames) == 0 {
		return
	}
	caller := g.Frames[len(g.Frames)-1]
	switch fr.Kind {
	case fkCall:
		ci := caller.Block.Instrs[caller.PC]
		if cv, ok := ci.(*ssa.Call); ok {
			var rv Value
			switch len(results) {
			case 0:
				rv = nil
			case 1:
				rv = results[0]
			default:
				rv = Tuple(results)
			}
			e.set(caller, cv, rv)
			caller.PC++
		} else {
			panic(abort{kind: "internal", msg: fmt.Sprintf("return to non-call instruction %T", ci)})
		}
	case fkDefer:
		if caller.Unwinding && !caller.Recovered && caller.pendingPanic != nil {
			// re-raise the panic that is unwinding the caller
			if g.Panic == nil {
				g.Panic = caller.pendingPanic
			}
			caller.pendingPanic = nil
		}
		// normal RunDefers: the caller re-executes RunDefers; recovered frames are
		// continued by finishRecovered from the main loop
	case fkDiscard:
		caller.PC++
	case fkExpectPanic:
		ci := caller.Block.Instrs[caller.PC]
		e.set(caller, ci.(ssa.Value), FalseT)
		caller.PC++
	case fkInit:
		// nothing: caller continues (init hook re-executes the instruction)
	}
}

// ---- instruction dispatch ----

func (e *Engine) execInstr(w *Worker, st *State, g *G, fr *Frame, instr ssa.Instruction) {
	defer func() {
		if r := recover(); r != nil {
			if _, ok := r.(rtPanicSignal); ok {
				if fr.Lenient {
					g.Panic = nil
					e.lenientSkip(st, g, fr, instr)
				}
				return // g.Panic set; main loop unwinds
			}
			if fr.Lenient {
				switch x := r.(type) {
				case forkReq, parkReq, failReq:
					e.lenientSkip(st, g, fr, instr)
					return
				case abort:
					if x.kind != "bound" {
						e.lenientSkip(st, g, fr, instr)
						return
					}
				case error: // Go runtime error inside the engine while evaluating opaque data
					e.lenientSkip(st, g, fr, instr)
					return
				}
			}
			panic(r)
		}
	}()
	switch in := instr.(type) {
	case *ssa.Alloc:
		et := in.Type().Underlying().(*types.Pointer).Elem()
		id := st.alloc(g, e.zero(et))
		e.set(fr, in, Ptr{Obj: id})
		fr.PC++
	case *ssa.BinOp:
		x, y := e.get(st, g, fr, in.X), e.get(st, g, fr, in.Y)
		e.set(fr, in, e.binop(w, st, g, fr, in.Op, in.X.Type(), x, y))
		fr.PC++
	case *ssa.UnOp:
		e.unop(w, st, g, fr, in)
	case *ssa.Call:
		e.call(w, st, g, fr, in)
	case *ssa.ChangeInterface:
		e.set(fr, in, e.get(st, g, fr, in.X))
		fr.PC++
	case *ssa.ChangeType:
		e.set(fr, in, e.get(st, g, fr, in.X))
		fr.PC++
	case *ssa.Convert:
		e.set(fr, in, e.convert(w, st, g, fr, in.X.Type(), in.Type(), e.get(st, g, fr, in.X)))
		fr.PC++
	case *ssa.MultiConvert:
		e.set(fr, in, e.convert(w, st, g, fr, in.X.Type(), in.Type(), e.get(st, g, fr, in.X)))
		fr.PC++
	case *ssa.DebugRef:
		fr.PC++
	case *ssa.Defer:
		c, args := e.resolveCallee(w, st, g, fr, &in.Call)
		fr.Defers = append(fr.Defers, deferred{Fn: c, Args: args, Pos: in.Pos()})
		fr.PC++
	case *ssa.Extract:
		e.set(fr, in, e.get(st, g, fr, in.Tuple).(Tuple)[in.Index])
		fr.PC++
	case *ssa.Field:
		e.set(fr, in, e.get(st, g, fr, in.X).(Tuple)[in.Field])
		fr.PC++
	case *ssa.FieldAddr:
		p := e.get(st, g, fr, in.X).(Ptr)
		if p.IsNil() {
			e.rtPanic(st, g, fr, "invalid memory address or nil pointer dereference")
		}
		e.set(fr, in, p.Field(in.Field))
		fr.PC++
	case *ssa.Go:
		c, args := e.resolveCallee(w, st, g, fr, &in.Call)
		e.spawn(w, st, g, c, args, in.Pos())
		fr.PC++
	case *ssa.If:
		c := e.get(st, g, fr, in.Cond).(*Term)
		var taken int
		if c.IsConst() {
			taken = int(1 - c.K)
		} else {
			taken = e.decide(w, st, "branch", e.posStr(e.instrPos(fr)), []*Term{c, Not(c)})
		}
		fr.Prev = fr.Block
		fr.Block = fr.Block.Succs[taken]
		fr.PC = 0
	case *ssa.Index:
		e.index(w, st, g, fr, in)
	case *ssa.IndexAddr:
		e.indexAddr(w, st, g, fr, in)
	case *ssa.Jump:
		fr.Prev = fr.Block
		fr.Block = fr.Block.Succs[0]
		fr.PC = 0
	case *ssa.Lookup:
		e.lookup(w, st, g, fr, in)
	case *ssa.MakeChan:
		n := e.concreteInt(w, st, g, fr, e.get(st, g, fr, in.Size), "chan size")
		id := st.alloc(g, &ChanObj{Cap: n})
		e.set(fr, in, ChanRef{Obj: id})
		fr.PC++
	case *ssa.MakeClosure:
		fn := in.Fn.(*ssa.Function)
		bind := make([]Value, len(in.Bindings))
		for i, b := range in.Bindings {
			bind[i] = e.get(st, g, fr, b)
		}
		e.set(fr, in, &Closure{Fn: fn, Bind: bind})
		fr.PC++
	case *ssa.MakeInterface:
		e.set(fr, in, Iface{T: in.X.Type(), V: e.get(st, g, fr, in.X)})
		fr.PC++
	case *ssa.MakeMap:
		id := st.alloc(g, &MapObj{})
		e.set(fr, in, MapRef{Obj: id})
		fr.PC++
	case *ssa.MakeSlice:
		e.makeSlice(w, st, g, fr, in)
	case *ssa.MapUpdate:
		e.mapUpdate(w, st, g, fr, in)
	case *ssa.Next:
		e.next(w, st, g, fr, in)
	case *ssa.Panic:
		v := e.get(st, g, fr, in.X)
		e.goPanic(st, g, v, "", in.Pos())
	case *ssa.Phi:
		// evaluate all phis of the block simultaneously
		var idx int
		for i, p := range fr.Block.Preds {
			if p == fr.Prev {
				idx = i
				break
			}
		}
		var phis []*ssa.Phi
		var vals []Value
		for pc := fr.PC; pc < len(fr.Block.Instrs); pc++ {
			p, ok := fr.Block.Instrs[pc].(*ssa.Phi)
			if !ok {
				break
			}
			phis = append(phis, p)
			vals = append(vals, e.get(st, g, fr, p.Edges[idx]))
		}
		for i, p := range phis {
			e.set(fr, p, vals[i])
		}
		fr.PC += len(phis)
	case *ssa.Range:
		e.rangeInit(w, st, g, fr, in)
	case *ssa.Return:
		res := make([]Value, len(in.Results))
		for i, r := range in.Results {
			res[i] = e.get(st, g, fr, r)
		}
		e.returnFrom(st, g, fr, res)
	case *ssa.RunDefers:
		if len(fr.Defers) > 0 {
			e.runTopDefer(w, st, g, fr)
		} else {
			fr.PC++
		}
	case *ssa.Select:
		e.selectOp(w, st, g, fr, in)
	case *ssa.Send:
		e.sendOp(w, st, g, fr, in)
	case *ssa.Slice:
		e.sliceOp(w, st, g, fr, in)
	case *ssa.SliceToArrayPointer:
		s := e.get(st, g, fr, in.X).(Slice)
		n := int(in.Type().Underlying().(*types.Pointer).Elem().Underlying().(*types.Array).Len())
		if s.Len < n {
			e.rtPanic(st, g, fr, "cannot convert slice to array pointer: length too short")
		}
		if s.Off != 0 || (n == 0 && s.Base.IsNil()) {
			unsupported(in.Pos(), "SliceToArrayPointer with offset")
		}
		e.set(fr, in, s.Base)
		fr.PC++
	case *ssa.Store:
		if _, ok := e.get(st, g, fr, in.Addr).(SymBufElem); ok {
			unsupported(in.Pos(), "store into a symbolic buffer")
		}
		p := e.get(st, g, fr, in.Addr).(Ptr)
		if p.IsNil() {
			e.rtPanic(st, g, fr, "invalid memory address or nil pointer dereference")
		}
		v := e.get(st, g, fr, in.Val)
		e.raceAccess(st, g, fr, p, true)
		st.store(p, v)
		fr.PC++
	case *ssa.TypeAssert:
		e.typeAssert(w, st, g, fr, in)
	default:
		unsupported(instr.Pos(), "instruction %T", instr)
	}
}

// lenientSkip skips an instruction that cannot be evaluated during a lenient init: value
// instructions get an opaque result; control instructions abandon the initialiser.
func (e *Engine) lenientSkip(st *State, g *G, fr *Frame, instr ssa.Instruction) {
	if len(g.Frames) == 0 || g.Frames[len(g.Frames)-1] != fr {
		// frames were pushed or popped by the failing instruction: abandon the init
		e.abandonInit(g)
		return
	}
	switch in := instr.(type) {
	case ssa.Value:
		e.set(fr, in, e.lenientResult(st, in.Type()))
		fr.PC++
	case *ssa.Store, *ssa.MapUpdate, *ssa.Send, *ssa.Go, *ssa.Defer, *ssa.DebugRef:
		fr.PC++
	default:
		e.abandonInit(g)
	}
}

func (e *Engine) abandonInit(g *G) {
	for len(g.Frames) > 0 {
		top := g.Frames[len(g.Frames)-1]
		g.Frames = g.Frames[:len(g.Frames)-1]
		if top.Kind == fkInit {
			break
		}
	}
}

// ---- decide ----

func (e *Engine) decide(w *Worker, st *State, kind, desc string, lits []*Term) int {
	if st.forced >= 0 {
		i := st.forced
		st.forced = -1
		return i
	}
	var feas []int
	models := make([]*Model, len(lits))
	unknown := false
	for i, l := range lits {
		if l.IsFalse() {
			continue
		}
		if l.IsTrue() {
			feas = append(feas, i)
			models[i] = st.model
			continue
		}
		ok, m := w.feasible(st, l)
		if ok {
			feas = append(feas, i)
			models[i] = m
			if m == nil {
				unknown = true
				st.undecided = true
			}
		}
	}
	switch len(feas) {
	case 0:
		panic(abort{kind: "infeasible", msg: "no feasible alternative at " + desc})
	case 1:
		if unknown {
			// undecided by the solver: keep the literal so later queries see it
			st.addPC(lits[feas[0]])
			st.model = nil
		} else if models[feas[0]] != nil {
			st.model = models[feas[0]]
		}
		return feas[0]
	}
	if e.cfg.Trace {
		fmt.Printf("FORK %s %s feas=%v pc=%v lits=%v\n", kind, desc, feas, st.pc, lits)
		for i, m := range models {
			if m != nil {
				fmt.Printf("   model[%d]=%v\n", i, m.Vals)
			}
		}
	}
	panic(forkReq{kind: kind, desc: desc, alts: feas, lits: lits, models: models})
}

// concreteInt returns a concrete int for v, forking over feasible values when symbolic.
func (e *Engine) concreteInt(w *Worker, st *State, g *G, fr *Frame, v Value, what string) int {
	t := v.(*Term)
	if t.IsConst() {
		return int(t.SVal())
	}
	if st.forced >= 0 && st.hasForcedV {
		st.forced = -1
		st.hasForcedV = false
		return int(BV(t.W, st.forcedV).SVal())
	}
	vals := e.enumerate(w, st, t, 17)
	if len(vals) > 16 {
		unsupported(e.instrPos(fr), "symbolic %s with more than 16 feasible values", what)
	}
	lits := make([]*Term, len(vals))
	for i, x := range vals {
		lits[i] = Eq(t, BV(t.W, x))
	}
	if len(vals) == 0 {
		panic(abort{kind: "infeasible", msg: "no feasible value"})
	}
	if len(vals) == 1 {
		return int(BV(t.W, vals[0]).SVal())
	}
	alts := make([]int, len(vals))
	for i := range alts {
		alts[i] = i
	}
	panic(forkReq{kind: "value", desc: what + "@" + e.posStr(e.instrPos(fr)), alts: alts, lits: lits, vals: vals})
}

// enumerate lists up to max feasible values of t under the path condition.
func (e *Engine) enumerate(w *Worker, st *State, t *Term, max int) []uint64 {
	if st.forced >= 0 {
		// re-execution after a fork: the enumeration must be reproduced identically
	}
	var vals []uint64
	var block []*Term
	for len(vals) < max {
		q := append(append([]*Term{}, st.pc...), block...)
		r, mv, err := w.solver.CheckModel(q, []*Term{t})
		if err != nil || r == Unknown {
			panic(abort{kind: "inconclusive", msg: fmt.Sprintf("enumerate: solver %v %v", r, err)})
		}
		if r == Unsat {
			break
		}
		vals = append(vals, mv[0])
		block = append(block, Not(Eq(t, BV(t.W, mv[0]))))
	}
	// deterministic order
	for i := 1; i < len(vals); i++ {
		for j := i; j > 0 && vals[j] < vals[j-1]; j-- {
			vals[j], vals[j-1] = vals[j-1], vals[j]
		}
	}
	return vals
}

// ---- unary / binary ----

func (e *Engine) unop(w *Worker, st *State, g *G, fr *Frame, in *ssa.UnOp) {
	switch in.Op {
	case token.MUL: // load
		if el, ok := e.get(st, g, fr, in.X).(SymBufElem); ok {
			e.set(fr, in, el.Buf.read(el.Idx))
			fr.PC++
			return
		}
		p := e.get(st, g, fr, in.X).(Ptr)
		if p.IsNil() {
			e.rtPanic(st, g, fr, "invalid memory address or nil pointer dereference")
		}
		e.raceAccess(st, g, fr, p, false)
		v := st.load(p)
		if v == nil {
			panic(abort{kind: "internal", msg: "load of unallocated object " + valString(p)})
		}
		e.set(fr, in, v)
		fr.PC++
	case token.ARROW:
		e.recvOp(w, st, g, fr, in)
	case token.SUB:
		switch x := e.get(st, g, fr, in.X).(type) {
		case *Term:
			e.set(fr, in, BVNeg(x))
		case Float:
			e.set(fr, in, -x)
		default:
			unsupported(in.Pos(), "negation of %T", x)
		}
		fr.PC++
	case token.XOR:
		e.set(fr, in, BVNot(e.get(st, g, fr, in.X).(*Term)))
		fr.PC++
	case token.NOT:
		e.set(fr, in, Not(e.get(st, g, fr, in.X).(*Term)))
		fr.PC++
	default:
		unsupported(in.Pos(), "unop %v", in.Op)
	}
}

func (e *Engine) binop(w *Worker, st *State, g *G, fr *Frame, op token.Token, xt types.Type, x, y Value) Value {
	switch a := x.(type) {
	case *Term:
		b, ok := y.(*Term)
		if !ok {
			unsupported(e.instrPos(fr), "binop %v on %T,%T", op, x, y)
		}
		if a.W == 0 {
			switch op {
			case token.EQL:
				return Eq(a, b)
			case token.NEQ:
				return Not(Eq(a, b))
			case token.AND, token.LAND:
				return And(a, b)
			case token.OR, token.LOR:
				return Or(a, b)
			}
			unsupported(e.instrPos(fr), "bool binop %v", op)
		}
		signed := isSigned(xt)
		switch op {
		case token.ADD:
			return BinBV(OpBVAdd, a, b)
		case token.SUB:
			return BinBV(OpBVSub, a, b)
		case token.MUL:
			return BinBV(OpBVMul, a, b)
		case token.QUO, token.REM:
			// division by zero check
			z := Eq(b, BV(b.W, 0))
			if !z.IsFalse() {
				if z.IsTrue() {
					e.rtPanic(st, g, fr, "integer divide by zero")
				}
				if e.decide(w, st, "divzero", e.posStr(e.instrPos(fr)), []*Term{z, Not(z)}) == 0 {
					e.rtPanic(st, g, fr, "integer divide by zero")
				}
			}
			if signed {
				if op == token.QUO {
					return BinBV(OpBVSDiv, a, b)
				}
				return BinBV(OpBVSRem, a, b)
			}
			if op == token.QUO {
				return BinBV(OpBVUDiv, a, b)
			}
			return BinBV(OpBVURem, a, b)
		case token.AND:
			return BinBV(OpBVAnd, a, b)
		case token.OR:
			return BinBV(OpBVOr, a, b)
		case token.XOR:
			return BinBV(OpBVXor, a, b)
		case token.AND_NOT:
			return BinBV(OpBVAnd, a, BVNot(b))
		case token.SHL, token.SHR:
			// shift count may have a different width; Go: count >= width => 0 / sign fill
			cnt := b
			if cnt.W < a.W {
				cnt = Zext(cnt, a.W)
			} else if cnt.W > a.W {
				// if any high bits set, result saturates; clamp
				big := CmpBV(OpBVUle, BV(cnt.W, uint64(a.W)), cnt)
				lo := Extract(cnt, 0, a.W)
				cnt = Ite(big, BV(a.W, uint64(a.W)), lo)
			}
			if op == token.SHL {
				return BinBV(OpBVShl, a, cnt)
			}
			if signed {
				return BinBV(OpBVAshr, a, cnt)
			}
			return BinBV(OpBVLshr, a, cnt)
		case token.EQL:
			return Eq(a, b)
		case token.NEQ:
			return Not(Eq(a, b))
		case token.LSS:
			if signed {
				return CmpBV(OpBVSlt, a, b)
			}
			return CmpBV(OpBVUlt, a, b)
		case token.LEQ:
			if signed {
				return CmpBV(OpBVSle, a, b)
			}
			return CmpBV(OpBVUle, a, b)
		case token.GTR:
			if signed {
				return CmpBV(OpBVSlt, b, a)
			}
			return CmpBV(OpBVUlt, b, a)
		case token.GEQ:
			if signed {
				return CmpBV(OpBVSle, b, a)
			}
			return CmpBV(OpBVUle, b, a)
		}
	case Float:
		b := y.(Float)
		switch op {
		case token.ADD:
			return e.roundF(xt, a+b)
		case token.SUB:
			return e.roundF(xt, a-b)
		case token.MUL:
			return e.roundF(xt, a*b)
		case token.QUO:
			return e.roundF(xt, a/b)
		case token.EQL:
			return BoolC(a == b)
		case token.NEQ:
			return BoolC(a != b)
		case token.LSS:
			return BoolC(a < b)
		case token.LEQ:
			return BoolC(a <= b)
		case token.GTR:
			return BoolC(a > b)
		case token.GEQ:
			return BoolC(a >= b)
		}
	case Str:
		b := y.(Str)
		switch op {
		case token.ADD:
			if !a.IsSym() && !b.IsSym() {
				return Str{S: a.S + b.S}
			}
			return MkStr(append(append([]*Term{}, a.Bytes()...), b.Bytes()...))
		case token.EQL:
			return e.strEq(a, b)
		case token.NEQ:
			return Not(e.strEq(a, b))
		default:
			if a.IsSym() || b.IsSym() {
				return e.symStrCmp(op, a, b)
			}
			switch op {
			case token.LSS:
				return BoolC(a.S < b.S)
			case token.LEQ:
				return BoolC(a.S <= b.S)
			case token.GTR:
				return BoolC(a.S > b.S)
			case token.GEQ:
				return BoolC(a.S >= b.S)
			}
		}
	}
	switch op {
	case token.EQL:
		return e.equal(st, g, fr, x, y)
	case token.NEQ:
		return Not(e.equal(st, g, fr, x, y))
	}
	unsupported(e.instrPos(fr), "binop %v on %T,%T", op, x, y)
	return nil
}

func (e *Engine) roundF(t types.Type, f Float) Float {
	if b, ok := t.Underlying().(*types.Basic); ok && b.Kind() == types.Float32 {
		return Float(float32(f))
	}
	return f
}

func (e *Engine) strEq(a, b Str) *Term {
	if a.Len() != b.Len() {
		return FalseT
	}
	if !a.IsSym() && !b.IsSym() {
		return BoolC(a.S == b.S)
	}
	r := TrueT
	for i := 0; i < a.Len(); i++ {
		r = And(r, Eq(a.Byte(i), b.Byte(i)))
	}
	return r
}

// lexicographic comparison of (possibly symbolic) strings
func (e *Engine) symStrCmp(op token.Token, a, b Str) *Term {
	// less(a,b) from the end backwards
	n := a.Len()
	if b.Len() < n {
		n = b.Len()
	}
	// base: all common bytes equal -> compare lengths
	var lt, eq *Term
	lt = BoolC(a.Len() < b.Len())
	eq = BoolC(a.Len() == b.Len())
	for i := n - 1; i >= 0; i-- {
		x, y := a.Byte(i), b.Byte(i)
		bl := CmpBV(OpBVUlt, x, y)
		be := Eq(x, y)
		lt = Or(bl, And(be, lt))
		eq = And(be, eq)
	}
	switch op {
	case token.LSS:
		return lt
	case token.LEQ:
		return Or(lt, eq)
	case token.GTR:
		return Not(Or(lt, eq))
	case token.GEQ:
		return Not(lt)
	}
	panic("symStrCmp")
}

// equal implements == on arbitrary comparable values.
func (e *Engine) equal(st *State, g *G, fr *Frame, x, y Value) *Term {
	switch a := x.(type) {
	case *Term:
		b, ok := y.(*Term)
		if !ok || a.W != b.W {
			return FalseT
		}
		return Eq(a, b)
	case Float:
		b, ok := y.(Float)
		return BoolC(ok && a == b)
	case Str:
		b, ok := y.(Str)
		if !ok {
			return FalseT
		}
		return e.strEq(a, b)
	case Ptr:
		b, ok := y.(Ptr)
		return BoolC(ok && samePtr(a, b))
	case Tuple:
		b, ok := y.(Tuple)
		if !ok || len(a) != len(b) {
			return FalseT
		}
		r := TrueT
		for i := range a {
			r = And(r, e.equal(st, g, fr, a[i], b[i]))
		}
		return r
	case Slice:
		b := y.(Slice)
		// only comparison with nil is legal
		if b.Base.IsNil() && b.Cap == 0 {
			return BoolC(a.Base.IsNil() && a.Cap == 0)
		}
		return BoolC(b.Base.IsNil() == a.Base.IsNil())
	case *SymBuf:
		if s, ok := y.(Slice); ok && s.Base.IsNil() {
			return BoolC(a == nil)
		}
		unsupported(e.instrPos(fr), "comparison of symbolic buffer")
	case Iface:
		b, ok := y.(Iface)
		if !ok {
			return FalseT
		}
		if a.T == nil || b.T == nil {
			return BoolC(a.T == nil && b.T == nil)
		}
		if !types.Identical(a.T, b.T) {
			return FalseT
		}
		if !types.Comparable(a.T) {
			e.goPanic(st, g, Str{S: "runtime error: comparing uncomparable type " + a.T.String()}, "runtime error: comparing uncomparable type "+a.T.String(), e.instrPos(fr))
			panic(rtPanicSignal{})
		}
		return e.equal(st, g, fr, a.V, b.V)
	case *Closure:
		b, _ := y.(*Closure)
		return BoolC((a == nil) == (b == nil))
	case MapRef:
		b := y.(MapRef)
		return BoolC(a.Obj == b.Obj)
	case ChanRef:
		b := y.(ChanRef)
		return BoolC(a.Obj == b.Obj)
	case Opaque:
		b, ok := y.(Opaque)
		return BoolC(ok && a == b)
	case nil:
		return BoolC(y == nil)
	}
	unsupported(e.instrPos(fr), "equality on %T", x)
	return nil
}

// ---- conversions ----

func (e *Engine) convert(w *Worker, st *State, g *G, fr *Frame, from, to types.Type, v Value) Value {
	fu, tu := from.Underlying(), to.Underlying()
	switch t := tu.(type) {
	case *types.Basic:
		switch {
		case t.Info()&types.IsInteger != 0:
			switch x := v.(type) {
			case *Term:
				tw := e.intWidth(t)
				if x.W == tw {
					return x
				}
				if x.W > tw {
					return Extract(x, 0, tw)
				}
				if isSigned(from) {
					return Sext(x, tw)
				}
				return Zext(x, tw)
			case Float:
				tw := e.intWidth(t)
				f := float64(x)
				if t.Info()&types.IsUnsigned != 0 {
					return BV(tw, uint64(f))
				}
				return BV(tw, uint64(int64(f)))
			case Ptr: // unsafe.Pointer -> uintptr
				return BV(64, uint64(x.Obj.G)<<32|uint64(x.Obj.N))
			}
		case t.Info()&types.IsFloat != 0:
			switch x := v.(type) {
			case *Term:
				if !x.IsConst() {
					unsupported(e.instrPos(fr), "symbolic integer to float conversion")
				}
				var f float64
				if isSigned(from) {
					f = float64(x.SVal())
				} else {
					f = float64(x.K)
				}
				return e.roundF(to, Float(f))
			case Float:
				return e.roundF(to, x)
			}
		case t.Info()&types.IsString != 0:
			switch x := v.(type) {
			case Str:
				return x
			case *Term: // integer -> string (rune)
				if !x.IsConst() {
					unsupported(e.instrPos(fr), "symbolic rune to string")
				}
				return Str{S: string(rune(x.SVal()))}
			case Slice:
				// []byte or []rune -> string
				el := fu.(*types.Slice).Elem().Underlying().(*types.Basic)
				if el.Kind() == types.Byte || el.Kind() == types.Uint8 {
					bs := make([]*Term, x.Len)
					for i := 0; i < x.Len; i++ {
						bs[i] = st.load(x.Base.Field(x.Off + i)).(*Term)
					}
					return MkStr(bs)
				}
				var rs []rune
				for i := 0; i < x.Len; i++ {
					t := st.load(x.Base.Field(x.Off + i)).(*Term)
					if !t.IsConst() {
						unsupported(e.instrPos(fr), "symbolic []rune to string")
					}
					rs = append(rs, rune(t.SVal()))
				}
				return Str{S: string(rs)}
			case *SymBuf:
				unsupported(e.instrPos(fr), "symbolic buffer to string")
			}
		case t.Kind() == types.UnsafePointer:
			return v
		}
	case *types.Slice:
		if s, ok := v.(Str); ok {
			el := t.Elem().Underlying().(*types.Basic)
			if el.Kind() == types.Byte || el.Kind() == types.Uint8 {
				bs := s.Bytes()
				arr := make(Tuple, len(bs))
				for i := range bs {
					arr[i] = bs[i]
				}
				id := st.alloc(g, arr)
				return Slice{Base: Ptr{Obj: id}, Len: len(bs), Cap: len(bs)}
			}
			if s.IsSym() {
				unsupported(e.instrPos(fr), "symbolic string to []rune")
			}
			rs := []rune(s.S)
			arr := make(Tuple, len(rs))
			for i := range rs {
				arr[i] = BV(32, uint64(rs[i]))
			}
			id := st.alloc(g, arr)
			return Slice{Base: Ptr{Obj: id}, Len: len(rs), Cap: len(rs)}
		}
		return v
	case *types.Pointer:
		return v
	}
	_ = fu
	unsupported(e.instrPos(fr), "conversion %v -> %v (%T)", from, to, v)
	return nil
}

// ---- indexing / slices ----

func (e *Engine) boundsIndex(w *Worker, st *State, g *G, fr *Frame, iv Value, n int) int {
	t := iv.(*Term)
	if t.IsConst() {
		i := t.SVal()
		if i < 0 || i >= int64(n) {
			e.rtPanic(st, g, fr, fmt.Sprintf("index out of range [%d] with length %d", i, n))
		}
		return int(i)
	}
	// symbolic index: fork over in-range values and the out-of-range case
	if n > 16 {
		unsupported(e.instrPos(fr), "symbolic index into collection of length %d", n)
	}
	lits := make([]*Term, n+1)
	oob := TrueT
	for i := 0; i < n; i++ {
		lits[i] = Eq(t, BV(t.W, uint64(i)))
		oob = And(oob, Not(lits[i]))
	}
	lits[n] = oob
	i := e.decide(w, st, "index", e.posStr(e.instrPos(fr)), lits)
	if i == n {
		e.rtPanic(st, g, fr, "index out of range [symbolic]")
	}
	return i
}

func (e *Engine) index(w *Worker, st *State, g *G, fr *Frame, in *ssa.Index) {
	x := e.get(st, g, fr, in.X)
	switch a := x.(type) {
	case Tuple:
		i := e.boundsIndex(w, st, g, fr, e.get(st, g, fr, in.Index), len(a))
		e.set(fr, in, a[i])
	case Str:
		i := e.boundsIndex(w, st, g, fr, e.get(st, g, fr, in.Index), a.Len())
		e.set(fr, in, a.Byte(i))
	default:
		unsupported(in.Pos(), "Index on %T", x)
	}
	fr.PC++
}

func (e *Engine) indexAddr(w *Worker, st *State, g *G, fr *Frame, in *ssa.IndexAddr) {
	x := e.get(st, g, fr, in.X)
	switch a := x.(type) {
	case Slice:
		i := e.boundsIndex(w, st, g, fr, e.get(st, g, fr, in.Index), a.Len)
		e.set(fr, in, a.Base.Field(a.Off+i))
	case Ptr: // pointer to array
		if a.IsNil() {
			e.rtPanic(st, g, fr, "invalid memory address or nil pointer dereference")
		}
		n := int(in.X.Type().Underlying().(*types.Pointer).Elem().Underlying().(*types.Array).Len())
		i := e.boundsIndex(w, st, g, fr, e.get(st, g, fr, in.Index), n)
		e.set(fr, in, a.Field(i))
	case *SymBuf:
		e.set(fr, in, e.symBufIndexAddr(w, st, g, fr, a, e.get(st, g, fr, in.Index).(*Term)))
	default:
		unsupported(in.Pos(), "IndexAddr on %T", x)
	}
	fr.PC++
}

func (e *Engine) makeSlice(w *Worker, st *State, g *G, fr *Frame, in *ssa.MakeSlice) {
	// make([]byte, 0, <symbolic capacity>): an empty lazy buffer (capacities of lazy buffers
	// are not modelled: cap == len, append always allocates); a negative capacity panics
	if bt, ok := in.Type().Underlying().(*types.Slice).Elem().Underlying().(*types.Basic); ok && bt.Kind() == types.Uint8 {
		lt, _ := e.get(st, g, fr, in.Len).(*Term)
		ct, _ := e.get(st, g, fr, in.Cap).(*Term)
		if lt != nil && lt.IsConst() && lt.K == 0 && ct != nil && !ct.IsConst() {
			e.boundsCond(w, st, g, fr, CmpBV(OpBVSle, BV(ct.W, 0), ct), "makeslice: cap")
			e.set(fr, in, symBytes(nil))
			fr.PC++
			return
		}
	}
	n := e.concreteInt(w, st, g, fr, e.get(st, g, fr, in.Len), "slice len")
	c := e.concreteInt(w, st, g, fr, e.get(st, g, fr, in.Cap), "slice cap")
	if n < 0 || c < n {
		e.rtPanic(st, g, fr, "makeslice: len out of range")
	}
	if c > 1<<16 {
		unsupported(in.Pos(), "make of very large slice %d", c)
	}
	et := in.Type().Underlying().(*types.Slice).Elem()
	arr := make(Tuple, c)
	if c > 0 {
		z := e.zero(et)
		for i := range arr {
			arr[i] = z
		}
	}
	id := st.alloc(g, arr)
	e.set(fr, in, Slice{Base: Ptr{Obj: id}, Len: n, Cap: c})
	fr.PC++
}

func (e *Engine) optInt(w *Worker, st *State, g *G, fr *Frame, v ssa.Value, def int, what string) int {
	if v == nil {
		return def
	}
	return e.concreteInt(w, st, g, fr, e.get(st, g, fr, v), what)
}

func (e *Engine) sliceOp(w *Worker, st *State, g *G, fr *Frame, in *ssa.Slice) {
	x := e.get(st, g, fr, in.X)
	switch a := x.(type) {
	case *SymBuf:
		e.set(fr, in, e.symBufSlice(w, st, g, fr, a, in))
		fr.PC++
		return
	case Str:
		lo := e.optInt(w, st, g, fr, in.Low, 0, "slice low")
		hi := e.optInt(w, st, g, fr, in.High, a.Len(), "slice high")
		if lo < 0 || hi < lo || hi > a.Len() {
			e.rtPanic(st, g, fr, fmt.Sprintf("slice bounds out of range [%d:%d] with length %d", lo, hi, a.Len()))
		}
		if a.IsSym() {
			e.set(fr, in, MkStr(a.B[lo:hi]))
		} else {
			e.set(fr, in, Str{S: a.S[lo:hi]})
		}
	case Slice:
		lo := e.optInt(w, st, g, fr, in.Low, 0, "slice low")
		hi := e.optInt(w, st, g, fr, in.High, a.Len, "slice high")
		mx := e.optInt(w, st, g, fr, in.Max, a.Cap, "slice max")
		if lo < 0 || hi < lo || mx < hi || mx > a.Cap {
			e.rtPanic(st, g, fr, fmt.Sprintf("slice bounds out of range [%d:%d:%d] with capacity %d", lo, hi, mx, a.Cap))
		}
		if a.Base.IsNil() {
			e.set(fr, in, Slice{})
		} else {
			e.set(fr, in, Slice{Base: a.Base, Off: a.Off + lo, Len: hi - lo, Cap: mx - lo})
		}
	case Ptr: // *array
		if a.IsNil() {
			e.rtPanic(st, g, fr, "invalid memory address or nil pointer dereference")
		}
		n := int(in.X.Type().Underlying().(*types.Pointer).Elem().Underlying().(*types.Array).Len())
		lo := e.optInt(w, st, g, fr, in.Low, 0, "slice low")
		hi := e.optInt(w, st, g, fr, in.High, n, "slice high")
		mx := e.optInt(w, st, g, fr, in.Max, n, "slice max")
		if lo < 0 || hi < lo || mx < hi || mx > n {
			e.rtPanic(st, g, fr, "slice bounds out of range")
		}
		e.set(fr, in, Slice{Base: a, Off: lo, Len: hi - lo, Cap: mx - lo})
	default:
		unsupported(in.Pos(), "Slice on %T", x)
	}
	fr.PC++
}

// ---- type assertions ----

func (e *Engine) implements(dyn types.Type, iface *types.Interface) bool {
	return types.Implements(dyn, iface)
}

func (e *Engine) typeAssert(w *Worker, st *State, g *G, fr *Frame, in *ssa.TypeAssert) {
	x := e.get(st, g, fr, in.X)
	if op, isOp := x.(Opaque); isOp {
		if fr.Lenient {
			e.set(fr, in, e.lenientResult(st, in.Type()))
			fr.PC++
			return
		}
		unsupported(in.Pos(), "type assertion on opaque value %s", op.Tag)
	}
	v := x.(Iface)
	var ok bool
	var res Value
	if it, isIface := in.AssertedType.Underlying().(*types.Interface); isIface {
		ok = v.T != nil && e.implements(v.T, it)
		if ok {
			res = v
		} else {
			res = Iface{}
		}
	} else {
		ok = v.T != nil && types.Identical(v.T, in.AssertedType)
		if ok {
			res = v.V
		} else {
			res = e.zero(in.AssertedType)
		}
	}
	if in.CommaOk {
		e.set(fr, in, Tuple{res, BoolC(ok)})
	} else {
		if !ok {
			var msg string
			if v.T == nil {
				msg = fmt.Sprintf("interface conversion: interface is nil, not %v", in.AssertedType)
			} else {
				msg = fmt.Sprintf("interface conversion: %v is not %v", v.T, in.AssertedType)
			}
			e.goPanic(st, g, Str{S: msg}, msg, e.instrPos(fr))
			g.Panic.stack = e.stackOf(g)
			panic(rtPanicSignal{})
		}
		e.set(fr, in, res)
	}
	fr.PC++
}

// ---- goroutines ----

func (e *Engine) spawn(w *Worker, st *State, g *G, c *Closure, args []Value, pos token.Pos) {
	g.SpawnN++
	id := e.internG(g.ID, g.SpawnN)
	ng := &G{ID: id, Status: gRunnable}
	st.gs = append(st.gs, ng)
	if st.race != nil {
		st.race.onGo(g, ng)
	}
	if c != nil && c.Fn != nil {
		ng.Root = c.Fn
	}
	func() {
		defer func() {
			if r := recover(); r != nil {
				if _, ok := r.(rtPanicSignal); ok {
					// nil func value: the new goroutine panics
					ng.Panic = g.Panic
					g.Panic = nil
					return
				}
				panic(r)
			}
		}()
		e.pushCall(w, st, ng, c, args, fkRoot, pos)
	}()
}

func (e *Engine) gidTable() map[uint32][2]uint32 {
	e.gidMu.Lock()
	defer e.gidMu.Unlock()
	out := make(map[uint32][2]uint32, len(e.gids))
	for k, id := range e.gids {
		out[id] = k
	}
	return out
}

func (e *Engine) internG(parent, n uint32) uint32 {
	e.gidMu.Lock()
	defer e.gidMu.Unlock()
	k := [2]uint32{parent, n}
	if id, ok := e.gids[k]; ok {
		return id
	}
	id := uint32(len(e.gids) + 2) // 0 static, 1 main
	e.gids[k] = id
	return id
}

var _ = math.Inf
