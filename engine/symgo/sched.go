package symgo

import (
	"strings"
	"fmt"
	"go/token"
	"go/types"

	"golang.org/x/tools/go/ssa"
)

type opKind uint8

const (
	opSend opKind = iota
	opRecv
	opClose
	opSelect
	opLock
	opUnlock
	opRLock
	opRUnlock
	opWLockAnnounce
	opWLockAcquire
	opWUnlock
	opAtomic    // atomic load / store / rmw on Obj
	opVAtomic   // harness atomic section start (Objs / Universal)
	opQuiescent // vQuiescent
	opWGWait
	opWGAdd
	opPlain // promoted racy plain access
	opOnce  // sync.Once.Do
)

var opNamesK = [...]string{"send", "recv", "close", "select", "lock", "unlock", "rlock", "runlock", "wlock-announce", "wlock-acquire", "wunlock", "atomic", "vatomic", "quiescent", "wg-wait", "wg-add", "plain", "once"}

type ObjKey struct {
	Obj ObjID
	P   uint64
}

func keyOf(p Ptr) ObjKey {
	var h uint64 = 7
	for _, i := range p.Path {
		h = mix(h, uint64(i)+1)
	}
	return ObjKey{Obj: p.Obj, P: h}
}

type selCase struct {
	Send bool
	Ch   ObjID
	Val  Value
}

type Op struct {
	Kind       opKind
	Ch         ObjID
	Val        Value
	Cases      []selCase
	HasDefault bool
	Obj        ObjKey
	Ptr        Ptr
	Write      bool
	Universal  bool
	Objs       []ObjKey
	DynRoot    *Ptr // vAtomic kind 3: objects = root + all channels reachable from it
	Pos        token.Pos
}

type Grant struct {
	Case    int    // select case index (len(Cases) = default), -1 otherwise
	Partner uint32 // rendezvous partner goroutine id (0 none)
	PCase   int    // partner's select case (-1 if plain op)
}

// Trans is an enabled transition.
type Trans struct {
	G       uint32
	Case    int
	Partner uint32
	PCase   int
	Kind    opKind
	Objs    []ObjKey
	Write   bool
	Univ    bool
	Pos     token.Pos
}

type transKey struct {
	G       uint32
	Case    int32
	Partner uint32
	PCase   int32
	Pos     token.Pos
}

func (t *Trans) key() transKey {
	return transKey{t.G, int32(t.Case), t.Partner, int32(t.PCase), t.Pos}
}

// visible is called by an instruction in front of a visible operation. It returns the
// grant if the operation may execute now; otherwise it parks the goroutine (does not return).
func (e *Engine) visible(st *State, g *G, op Op) *Grant {
	if g.Atomic > 0 {
		// inside an atomic section: execute inline; must be enabled
		gr := e.inlineGrant(st, g, &op)
		if gr == nil {
			panic(abort{kind: "internal", msg: "operation would block inside an atomic section: " + opNamesK[op.Kind], pos: op.Pos})
		}
		return gr
	}
	if g.Granted != nil {
		gr := g.Granted
		g.Granted = nil
		g.Pending = nil
		return gr
	}
	g.Pending = &op
	g.Status = gParked
	panic(parkReq{})
}

// inlineGrant picks the (deterministic) first enabled alternative for an op executed
// inside an atomic section.
func (e *Engine) inlineGrant(st *State, g *G, op *Op) *Grant {
	saved := g.Pending
	g.Pending = op
	ts := e.transOf(st, g)
	g.Pending = saved
	if len(ts) == 0 {
		return nil
	}
	t := ts[0]
	return &Grant{Case: t.Case, Partner: t.Partner, PCase: t.PCase}
}

// ---- enabledness ----

func chanReadyRecv(c *ChanObj, st *State) bool {
	if c == nil {
		return false
	}
	if c.EnvTick {
		return !st.envFrozen
	}
	return len(c.Buf) > 0 || c.Closed
}

func chanReadySend(c *ChanObj) bool {
	if c == nil {
		return false
	}
	return c.Closed || (c.Cap > 0 && len(c.Buf) < c.Cap)
}

// receivers parked on channel ch (other than g): returns (goroutine, case index)
func (e *Engine) parkedReceivers(st *State, self *G, ch ObjID) [][2]int {
	var out [][2]int
	for gi, h := range st.gs {
		if h == self || h.Status != gParked || h.Pending == nil {
			continue
		}
		switch h.Pending.Kind {
		case opRecv:
			if h.Pending.Ch == ch {
				out = append(out, [2]int{gi, -1})
			}
		case opSelect:
			for ci, c := range h.Pending.Cases {
				if !c.Send && c.Ch == ch {
					out = append(out, [2]int{gi, ci})
				}
			}
		}
	}
	return out
}

func (e *Engine) mutexState(st *State, p Ptr) *Term { return st.load(p.Field(0)).(*Term) }

// transOf lists the enabled transitions of goroutine g (parked with a pending op).
func (e *Engine) transOf(st *State, g *G) []Trans {
	op := g.Pending
	if op == nil {
		return nil
	}
	base := Trans{G: g.ID, Case: -1, PCase: -1, Kind: op.Kind, Pos: op.Pos, Write: true}
	switch op.Kind {
	case opSend:
		c := st.chanObj(ChanRef{op.Ch})
		if c == nil {
			return nil
		}
		base.Objs = []ObjKey{{Obj: op.Ch}}
		if chanReadySend(c) {
			return []Trans{base}
		}
		if c.Cap == 0 {
			var out []Trans
			for _, r := range e.parkedReceivers(st, g, op.Ch) {
				t := base
				t.Partner = st.gs[r[0]].ID
				t.PCase = r[1]
				out = append(out, t)
			}
			return out
		}
		return nil
	case opRecv:
		c := st.chanObj(ChanRef{op.Ch})
		if c == nil {
			return nil
		}
		base.Objs = []ObjKey{{Obj: op.Ch}}
		if c.EnvTick {
			base.Objs = []ObjKey{{Obj: ObjID{G: 0, N: 0}, P: 0xe7}}
			base.Write = false
		}
		if chanReadyRecv(c, st) {
			return []Trans{base}
		}
		return nil
	case opClose:
		base.Objs = []ObjKey{{Obj: op.Ch}}
		return []Trans{base}
	case opSelect:
		var out []Trans
		anyReady := false
		var objs []ObjKey
		for _, sc := range op.Cases {
			if !sc.Ch.IsNil() {
				objs = append(objs, ObjKey{Obj: sc.Ch})
			}
		}
		for ci, sc := range op.Cases {
			c := st.chanObj(ChanRef{sc.Ch})
			if c == nil {
				continue
			}
			t := base
			t.Case = ci
			t.Objs = objs
			if sc.Send {
				if chanReadySend(c) {
					anyReady = true
					out = append(out, t)
				} else if c.Cap == 0 {
					for _, r := range e.parkedReceivers(st, g, sc.Ch) {
						t2 := t
						t2.Partner = st.gs[r[0]].ID
						t2.PCase = r[1]
						out = append(out, t2)
					}
				}
			} else {
				if chanReadyRecv(c, st) {
					anyReady = true
					if c.EnvTick {
						t.Objs = append(append([]ObjKey{}, objs...), ObjKey{Obj: ObjID{}, P: 0xe7})
					}
					out = append(out, t)
				}
			}
		}
		if op.HasDefault && !anyReady {
			t := base
			t.Case = len(op.Cases)
			t.Objs = objs
			out = append(out, t)
		}
		return out
	case opLock:
		base.Objs = []ObjKey{op.Obj}
		if s := e.mutexState(st, op.Ptr); s.IsConst() && s.K == 0 {
			return []Trans{base}
		}
		return nil
	case opUnlock, opRUnlock, opWUnlock, opWLockAnnounce, opWGAdd:
		base.Objs = []ObjKey{op.Obj}
		return []Trans{base}
	case opRLock:
		base.Objs = []ObjKey{op.Obj}
		base.Write = false
		rw := st.load(op.Ptr).(Tuple)
		if rwWriter(rw) == 0 && rwAnnounced(rw) == 0 {
			return []Trans{base}
		}
		return nil
	case opWLockAcquire:
		base.Objs = []ObjKey{op.Obj}
		rw := st.load(op.Ptr).(Tuple)
		if rwWriter(rw) == 0 && rwReaders(rw) == 0 {
			return []Trans{base}
		}
		return nil
	case opAtomic, opPlain:
		base.Objs = []ObjKey{op.Obj}
		base.Write = op.Write
		return []Trans{base}
	case opOnce:
		base.Objs = []ObjKey{op.Obj}
		if d := onceState(st, op.Ptr); d == 2 {
			return nil // running in another goroutine: Do blocks until it completes
		}
		return []Trans{base}
	case opVAtomic:
		base.Objs = op.Objs
		if op.DynRoot != nil {
			base.Objs = e.dynObjs(st, *op.DynRoot)
		}
		base.Write = op.Write
		base.Univ = op.Universal
		return []Trans{base}
	case opWGWait:
		base.Objs = []ObjKey{op.Obj}
		base.Write = false
		if n := st.load(op.Ptr).(*Term); n.IsConst() && n.SVal() == 0 {
			return []Trans{base}
		}
		return nil
	case opQuiescent:
		base.Univ = true
		return []Trans{base} // filtered by the scheduler: only when nothing else is enabled
	}
	return nil
}

// enabledTransitions lists all enabled transitions in the state.
func (e *Engine) enabledTransitions(st *State) []Trans {
	var out []Trans
	var quiescent []Trans
	for _, g := range st.gs {
		if g.Status != gParked || g.Pending == nil {
			continue
		}
		ts := e.transOf(st, g)
		if g.Pending.Kind == opQuiescent {
			quiescent = append(quiescent, ts...)
			continue
		}
		out = append(out, ts...)
	}
	if len(out) == 0 {
		return quiescent
	}
	return out
}

func independent(a, b *Trans) bool {
	if a.G == b.G || a.Univ || b.Univ {
		return false
	}
	if a.Partner != 0 && (a.Partner == b.G || a.Partner == b.Partner) {
		return false
	}
	if b.Partner != 0 && b.Partner == a.G {
		return false
	}
	if !a.Write && !b.Write {
		return true
	}
	for _, x := range a.Objs {
		for _, y := range b.Objs {
			if x == y {
				return false
			}
		}
	}
	return true
}

// ---- channel operations ----

func (e *Engine) chanOf(v Value) ObjID {
	return v.(ChanRef).Obj
}

func (e *Engine) sendOp(w *Worker, st *State, g *G, fr *Frame, in *ssa.Send) {
	ch := e.chanOf(e.get(st, g, fr, in.Chan))
	val := e.get(st, g, fr, in.X)
	gr := e.visible(st, g, Op{Kind: opSend, Ch: ch, Val: val, Pos: e.instrPos(fr)})
	e.doSend(st, g, fr, ch, val, gr)
	fr.PC++
}

func (e *Engine) doSend(st *State, g *G, fr *Frame, ch ObjID, val Value, gr *Grant) {
	c := st.chanObj(ChanRef{ch})
	if c.Closed {
		msg := "send on closed channel"
		e.goPanic(st, g, Str{S: msg}, msg, e.instrPos(fr))
		panic(rtPanicSignal{})
	}
	if gr.Partner != 0 {
		p := st.findG(gr.Partner)
		if st.race != nil {
			st.race.onRendezvous(g, p)
		}
		e.completeRecv(st, p, gr.PCase, val, true)
		return
	}
	nc := *c
	nc.Buf = append(append(make([]Value, 0, len(c.Buf)+1), c.Buf...), val)
	if st.race != nil {
		st.race.onSend(g, ch, &nc)
	}
	st.setObj(ch, &nc)
}

// completeRecv finishes a parked receive (plain or select case) of goroutine p.
func (e *Engine) completeRecv(st *State, p *G, pcase int, val Value, ok bool) {
	fr := p.Frames[len(p.Frames)-1]
	instr := fr.Block.Instrs[fr.PC]
	switch in := instr.(type) {
	case *ssa.UnOp:
		if in.CommaOk {
			e.set(fr, in, Tuple{val, BoolC(ok)})
		} else {
			e.set(fr, in, val)
		}
	case *ssa.Select:
		e.set(fr, in, e.selectResult(in, pcase, val, ok))
	default:
		panic(abort{kind: "internal", msg: fmt.Sprintf("completeRecv on %T", instr)})
	}
	fr.PC++
	p.Pending = nil
	p.Granted = nil
	p.Status = gRunnable
}

func (e *Engine) selectResult(in *ssa.Select, chosen int, val Value, ok bool) Value {
	res := Tuple{BV(64, uint64(int64(chosen))), BoolC(ok)}
	if chosen < 0 || chosen >= len(in.States) {
		res[0] = BV(64, ^uint64(0))
		res[1] = FalseT
	}
	for i, s := range in.States {
		if s.Dir == types.RecvOnly {
			et := s.Chan.Type().Underlying().(*types.Chan).Elem()
			if i == chosen {
				res = append(res, val)
			} else {
				res = append(res, e.zero(et))
			}
		}
	}
	return res
}

func (e *Engine) recvOp(w *Worker, st *State, g *G, fr *Frame, in *ssa.UnOp) {
	ch := e.chanOf(e.get(st, g, fr, in.X))
	e.visible(st, g, Op{Kind: opRecv, Ch: ch, Pos: e.instrPos(fr)})
	et := in.X.Type().Underlying().(*types.Chan).Elem()
	e.checkOffer(st, g, fr, et, nil)
	val, ok := e.doRecv(st, g, ch, et)
	if in.CommaOk {
		e.set(fr, in, Tuple{val, BoolC(ok)})
	} else {
		e.set(fr, in, val)
	}
	fr.PC++
}

func (e *Engine) doRecv(st *State, g *G, ch ObjID, et types.Type) (Value, bool) {
	c := st.chanObj(ChanRef{ch})
	if c.EnvTick {
		return e.zero(et), true
	}
	if len(c.Buf) > 0 {
		v := c.Buf[0]
		nc := *c
		nc.Buf = append([]Value{}, c.Buf[1:]...)
		if st.race != nil {
			st.race.onRecv(g, ch, &nc)
		}
		st.setObj(ch, &nc)
		return v, true
	}
	if c.Closed {
		if st.race != nil {
			st.race.onRecvClosed(g, ch)
		}
		return e.zero(et), false
	}
	panic(abort{kind: "internal", msg: "doRecv on channel that is not ready"})
}

func (e *Engine) closeOp(w *Worker, st *State, g *G, fr *Frame, cr ChanRef, in *ssa.Call, pos token.Pos) {
	if fr != nil {
		pos = e.instrPos(fr)
	}
	e.visible(st, g, Op{Kind: opClose, Ch: cr.Obj, Pos: pos})
	c := st.chanObj(cr)
	if c == nil {
		msg := "close of nil channel"
		e.goPanic(st, g, Str{S: msg}, msg, pos)
		panic(rtPanicSignal{})
	}
	if c.Closed {
		msg := "close of closed channel"
		e.goPanic(st, g, Str{S: msg}, msg, pos)
		panic(rtPanicSignal{})
	}
	nc := *c
	nc.Closed = true
	if st.race != nil {
		st.race.onClose(g, cr.Obj)
	}
	st.setObj(cr.Obj, &nc)
	if in != nil && fr != nil {
		fr.PC++
	}
}

func (e *Engine) selectOp(w *Worker, st *State, g *G, fr *Frame, in *ssa.Select) {
	cases := make([]selCase, len(in.States))
	for i, s := range in.States {
		cases[i] = selCase{Send: s.Dir == types.SendOnly, Ch: e.chanOf(e.get(st, g, fr, s.Chan))}
		if s.Send != nil {
			cases[i].Val = e.get(st, g, fr, s.Send)
		}
	}
	gr := e.visible(st, g, Op{Kind: opSelect, Cases: cases, HasDefault: !in.Blocking, Pos: e.instrPos(fr)})
	if gr.Case == len(cases) {
		e.set(fr, in, e.selectResult(in, -1, nil, false))
		fr.PC++
		return
	}
	sc := cases[gr.Case]
	if sc.Send {
		e.doSend(st, g, fr, sc.Ch, sc.Val, gr)
		e.set(fr, in, e.selectResult(in, gr.Case, nil, false))
	} else {
		et := in.States[gr.Case].Chan.Type().Underlying().(*types.Chan).Elem()
		e.checkOffer(st, g, fr, et, cases)
		val, ok := e.doRecv(st, g, sc.Ch, et)
		e.set(fr, in, e.selectResult(in, gr.Case, val, ok))
	}
	fr.PC++
}

// ---- sync models (state kept in the real struct fields) ----

// sync.Mutex{state int32; sema uint32}: state 0 unlocked, 1 locked.
// sync.RWMutex{w Mutex; writerSem, readerSem uint32; readerCount, readerWait atomic.Int32}:
//
//	w.state = writer holds; readerCount.v = active readers; readerWait.v = announced writers.
const (
	rwFieldW           = 0
	rwFieldReaderCount = 3
	rwFieldReaderWait  = 4
)

func rwWriter(rw Tuple) int64 { return rw[rwFieldW].(Tuple)[0].(*Term).SVal() }
func atomicInt32Val(v Value) *Term {
	// atomic.Int32{_ noCopy; v int32}
	tu := v.(Tuple)
	return tu[len(tu)-1].(*Term)
}
func rwReaders(rw Tuple) int64   { return atomicInt32Val(rw[rwFieldReaderCount]).SVal() }
func rwAnnounced(rw Tuple) int64 { return atomicInt32Val(rw[rwFieldReaderWait]).SVal() }

func setAtomicInt32(v Value, n int64) Value {
	tu := v.(Tuple)
	c := make(Tuple, len(tu))
	copy(c, tu)
	c[len(tu)-1] = BV(32, uint64(n))
	return c
}

// sync.WaitGroup{noCopy; state atomic.Uint64; sema uint32}: we keep the counter in state.v
const wgCounterField = 1

func (e *Engine) fatal(st *State, g *G, msg string, pos token.Pos) {
	panic(failReq{&Failure{Kind: "fatal", ID: "fatal error: " + msg, Pos: e.posStr(pos), Stack: e.stackOf(g)}})
}

func nilRecv(c *icall, p Ptr) {
	if p.IsNil() {
		c.e.goPanic(c.st, c.g, Str{S: "runtime error: invalid memory address or nil pointer dereference"}, "runtime error: invalid memory address or nil pointer dereference", c.pos())
		c.g.Panic.stack = c.e.stackOf(c.g)
		panic(rtPanicSignal{})
	}
}

func (c *icall) curPos() token.Pos {
	if c.posOverride.IsValid() {
		return c.posOverride
	}
	if c.fr != nil {
		return c.e.instrPos(c.fr)
	}
	if len(c.g.Frames) > 0 {
		return c.e.instrPos(c.g.Frames[len(c.g.Frames)-1])
	}
	return token.NoPos
}

func intrMutexLock(c *icall) {
	p := c.args[0].(Ptr)
	nilRecv(c, p)
	c.e.visible(c.st, c.g, Op{Kind: opLock, Obj: keyOf(p), Ptr: p, Pos: c.curPos()})
	c.st.store(p.Field(0), BV(32, 1))
	if c.st.race != nil {
		c.st.race.onAcquire(c.g, keyOf(p))
	}
	c.ret(nil)
}

func intrMutexTryLock(c *icall) {
	p := c.args[0].(Ptr)
	nilRecv(c, p)
	c.e.visible(c.st, c.g, Op{Kind: opAtomic, Obj: keyOf(p), Ptr: p, Write: true, Pos: c.curPos()})
	if s := c.e.mutexState(c.st, p); s.K == 0 {
		c.st.store(p.Field(0), BV(32, 1))
		if c.st.race != nil {
			c.st.race.onAcquire(c.g, keyOf(p))
		}
		c.ret(TrueT)
		return
	}
	c.ret(FalseT)
}

func intrMutexUnlock(c *icall) {
	p := c.args[0].(Ptr)
	nilRecv(c, p)
	c.e.visible(c.st, c.g, Op{Kind: opUnlock, Obj: keyOf(p), Ptr: p, Pos: c.curPos()})
	if s := c.e.mutexState(c.st, p); s.K == 0 {
		c.e.fatal(c.st, c.g, "sync: unlock of unlocked mutex", c.curPos())
	}
	if c.st.race != nil {
		c.st.race.onRelease(c.g, keyOf(p))
	}
	c.st.store(p.Field(0), BV(32, 0))
	c.ret(nil)
}

func intrRWLock(c *icall) {
	p := c.args[0].(Ptr)
	nilRecv(c, p)
	rw := c.st.load(p).(Tuple)
	// phase 1: announce (once per Lock call: tracked through a per-goroutine marker)
	if !c.g.hasAnnounced(keyOf(p)) {
		c.e.visible(c.st, c.g, Op{Kind: opWLockAnnounce, Obj: keyOf(p), Ptr: p, Pos: c.curPos()})
		rw = c.st.load(p).(Tuple)
		c.st.store(p.Field(rwFieldReaderWait), setAtomicInt32(rw[rwFieldReaderWait], rwAnnounced(rw)+1))
		c.g.Announced = append(c.g.Announced, keyOf(p))
		// fallthrough to phase 2 as a separate visible operation
	}
	c.e.visible(c.st, c.g, Op{Kind: opWLockAcquire, Obj: keyOf(p), Ptr: p, Pos: c.curPos()})
	rw = c.st.load(p).(Tuple)
	c.st.store(p.Field(rwFieldReaderWait), setAtomicInt32(rw[rwFieldReaderWait], rwAnnounced(rw)-1))
	c.st.store(p.Field(rwFieldW).Field(0), BV(32, 1))
	c.g.dropAnnounced(keyOf(p))
	if c.st.race != nil {
		c.st.race.onAcquire(c.g, keyOf(p))
	}
	c.ret(nil)
}

func (g *G) hasAnnounced(k ObjKey) bool {
	for _, x := range g.Announced {
		if x == k {
			return true
		}
	}
	return false
}

func (g *G) dropAnnounced(k ObjKey) {
	var out []ObjKey
	for _, x := range g.Announced {
		if x != k {
			out = append(out, x)
		}
	}
	g.Announced = out
}

func intrRWUnlock(c *icall) {
	p := c.args[0].(Ptr)
	nilRecv(c, p)
	c.e.visible(c.st, c.g, Op{Kind: opWUnlock, Obj: keyOf(p), Ptr: p, Pos: c.curPos()})
	rw := c.st.load(p).(Tuple)
	if rwWriter(rw) == 0 {
		c.e.fatal(c.st, c.g, "sync: Unlock of unlocked RWMutex", c.curPos())
	}
	if c.st.race != nil {
		c.st.race.onRelease(c.g, keyOf(p))
	}
	c.st.store(p.Field(rwFieldW).Field(0), BV(32, 0))
	c.ret(nil)
}

func intrRWRLock(c *icall) {
	p := c.args[0].(Ptr)
	nilRecv(c, p)
	c.e.visible(c.st, c.g, Op{Kind: opRLock, Obj: keyOf(p), Ptr: p, Pos: c.curPos()})
	rw := c.st.load(p).(Tuple)
	c.st.store(p.Field(rwFieldReaderCount), setAtomicInt32(rw[rwFieldReaderCount], rwReaders(rw)+1))
	if c.st.race != nil {
		c.st.race.onAcquireRead(c.g, keyOf(p))
	}
	c.ret(nil)
}

func intrRWRUnlock(c *icall) {
	p := c.args[0].(Ptr)
	nilRecv(c, p)
	c.e.visible(c.st, c.g, Op{Kind: opRUnlock, Obj: keyOf(p), Ptr: p, Pos: c.curPos()})
	rw := c.st.load(p).(Tuple)
	if rwReaders(rw) <= 0 {
		c.e.fatal(c.st, c.g, "sync: RUnlock of unlocked RWMutex", c.curPos())
	}
	if c.st.race != nil {
		c.st.race.onReleaseRead(c.g, keyOf(p))
	}
	c.st.store(p.Field(rwFieldReaderCount), setAtomicInt32(rw[rwFieldReaderCount], rwReaders(rw)-1))
	c.ret(nil)
}

func wgCounterPtr(p Ptr, v Value) Ptr {
	// WaitGroup{noCopy noCopy; state atomic.Uint64{_ noCopy; _ align64; v uint64}; sema uint32}
	st := v.(Tuple)[wgCounterField].(Tuple)
	return p.Field(wgCounterField).Field(len(st) - 1)
}

func intrWGAdd(c *icall) {
	p := c.args[0].(Ptr)
	nilRecv(c, p)
	c.e.visible(c.st, c.g, Op{Kind: opWGAdd, Obj: keyOf(p), Ptr: p, Pos: c.curPos()})
	cp := wgCounterPtr(p, c.st.load(p))
	cur := c.st.load(cp).(*Term)
	d := c.args[1].(*Term)
	n := BV(64, uint64(cur.SVal()+d.SVal()))
	if n.SVal() < 0 {
		msg := "sync: negative WaitGroup counter"
		c.e.goPanic(c.st, c.g, Str{S: msg}, msg, c.curPos())
		panic(rtPanicSignal{})
	}
	if c.st.race != nil {
		c.st.race.onRelease(c.g, keyOf(p))
	}
	c.st.store(cp, n)
	c.ret(nil)
}

func intrWGDone(c *icall) {
	c.args = append(c.args[:1:1], BV(64, ^uint64(0)))
	intrWGAdd(c)
}

func intrWGWait(c *icall) {
	p := c.args[0].(Ptr)
	nilRecv(c, p)
	cp := wgCounterPtr(p, c.st.load(p))
	c.e.visible(c.st, c.g, Op{Kind: opWGWait, Obj: keyOf(p), Ptr: cp, Pos: c.curPos()})
	if c.st.race != nil {
		c.st.race.onAcquire(c.g, keyOf(p))
	}
	c.ret(nil)
}

// ---- atomics ----

func atomicOp(c *icall, write bool, f func(cur Value) (nv Value, ret Value)) {
	p := c.args[0].(Ptr)
	nilRecv(c, p)
	c.e.visible(c.st, c.g, Op{Kind: opAtomic, Obj: keyOf(p), Ptr: p, Write: write, Pos: c.curPos()})
	cur := c.st.load(p)
	nv, ret := f(cur)
	if c.st.race != nil {
		if write {
			c.st.race.onRelease(c.g, keyOf(p))
		}
		c.st.race.onAcquire(c.g, keyOf(p))
	}
	if write && nv != nil {
		c.st.store(p, nv)
	}
	c.ret(ret)
}

func intrAtomicLoad(c *icall) {
	atomicOp(c, false, func(cur Value) (Value, Value) { return nil, cur })
}
func intrAtomicStore(c *icall) {
	atomicOp(c, true, func(cur Value) (Value, Value) { return c.args[1], nil })
}
func intrAtomicAdd(c *icall) {
	atomicOp(c, true, func(cur Value) (Value, Value) {
		n := BinBV(OpBVAdd, cur.(*Term), c.args[1].(*Term))
		return n, n
	})
}
func intrAtomicSwap(c *icall) {
	atomicOp(c, true, func(cur Value) (Value, Value) { return c.args[1], cur })
}
func intrAtomicCAS(c *icall) {
	atomicOp(c, true, func(cur Value) (Value, Value) {
		var eq *Term
		switch x := cur.(type) {
		case *Term:
			eq = Eq(x, c.args[1].(*Term))
		case Ptr:
			eq = BoolC(samePtr(x, c.args[1].(Ptr)))
		default:
			unsupported(c.pos(), "CAS on %T", cur)
		}
		if !eq.IsConst() {
			unsupported(c.pos(), "CAS with symbolic comparison")
		}
		if eq.IsTrue() {
			return c.args[2], TrueT
		}
		return nil, FalseT
	})
}

// ---- sync.Once (built-in model) ----
// Once{done atomic.Uint32{_ noCopy; v uint32}; m Mutex}: done.v = 0 not run, 1 done, 2 running.

func oncePtr(st *State, p Ptr) Ptr {
	d := st.load(p.Field(0)).(Tuple)
	return p.Field(0).Field(len(d) - 1)
}

func onceState(st *State, p Ptr) uint64 { return st.load(oncePtr(st, p)).(*Term).K }

func intrOnceDo(c *icall) {
	p := c.args[0].(Ptr)
	nilRecv(c, p)
	c.e.visible(c.st, c.g, Op{Kind: opOnce, Obj: keyOf(p), Ptr: p, Write: true, Pos: c.curPos()})
	if c.st.race != nil {
		c.st.race.onAcquire(c.g, keyOf(p))
	}
	if onceState(c.st, p) == 1 {
		c.ret(nil)
		return
	}
	c.st.store(oncePtr(c.st, p), BV(32, 2))
	f, _ := c.args[1].(*Closure)
	if c.in == nil {
		unsupported(c.curPos(), "deferred sync.Once.Do")
	}
	if f == nil {
		c.e.goPanic(c.st, c.g, Str{S: "runtime error: invalid memory address or nil pointer dereference"}, "runtime error: invalid memory address or nil pointer dereference (nil func in Once.Do)", c.curPos())
		panic(rtPanicSignal{})
	}
	// run f; when its frame is popped (return or panic) the once is marked done
	nframes := len(c.g.Frames)
	c.e.pushCall(c.w, c.st, c.g, f, nil, fkDiscard, c.curPos())
	if len(c.g.Frames) > nframes {
		c.g.Frames[len(c.g.Frames)-1].Once = &p
	} else {
		// f was an intrinsic/builtin executed inline
		c.st.store(oncePtr(c.st, p), BV(32, 1))
		if c.st.race != nil {
			c.st.race.onRelease(c.g, keyOf(p))
		}
		c.fr.PC++
	}
}

// ---- sync.Map (model: one engine map kept in the struct's `dirty` field; every method is one
// atomic transition on the Map object and synchronises like an atomic read-modify-write) ----

const syncMapDirtyField = 2 // sync.Map{mu, read, dirty, misses}

func syncMapOp(c *icall, write bool) (Ptr, *MapObj) {
	p := c.args[0].(Ptr)
	nilRecv(c, p)
	c.e.visible(c.st, c.g, Op{Kind: opAtomic, Obj: keyOf(p), Ptr: p, Write: write, Pos: c.curPos()})
	if c.st.race != nil {
		if write {
			c.st.race.onRelease(c.g, keyOf(p))
		}
		c.st.race.onAcquire(c.g, keyOf(p))
	}
	fp := p.Field(syncMapDirtyField)
	mr, _ := c.st.load(fp).(MapRef)
	if mr.Obj.IsNil() {
		if !write {
			return fp, nil
		}
		id := c.st.alloc(c.g, &MapObj{})
		mr = MapRef{Obj: id}
		c.st.store(fp, mr)
	}
	return fp, c.st.mapObj(mr)
}

func syncMapSet(c *icall, fp Ptr, m *MapObj, i int, k, v Value, del bool) {
	nm := &MapObj{Entries: make([]mapEntry, 0, len(m.Entries)+1)}
	for j, en := range m.Entries {
		if j == i {
			if !del {
				nm.Entries = append(nm.Entries, mapEntry{K: en.K, V: v})
			}
			continue
		}
		nm.Entries = append(nm.Entries, en)
	}
	if i < 0 && !del {
		nm.Entries = append(nm.Entries, mapEntry{K: k, V: v})
	}
	c.st.setObj(c.st.load(fp).(MapRef).Obj, nm)
}

func (c *icall) anyZero() Value {
	return c.e.zero(c.fn.Signature.Results().At(0).Type())
}

func intrSyncMapLoad(c *icall) {
	_, m := syncMapOp(c, false)
	i := c.e.findKey(c.w, c.st, c.g, c.fr, m, c.args[1])
	if i < 0 {
		c.ret(Tuple{c.anyZero(), FalseT})
		return
	}
	c.ret(Tuple{m.Entries[i].V, TrueT})
}

func intrSyncMapStore(c *icall) {
	fp, m := syncMapOp(c, true)
	i := c.e.findKey(c.w, c.st, c.g, c.fr, m, c.args[1])
	syncMapSet(c, fp, m, i, c.args[1], c.args[2], false)
	c.ret(nil)
}

func intrSyncMapLoadOrStore(c *icall) {
	fp, m := syncMapOp(c, true)
	i := c.e.findKey(c.w, c.st, c.g, c.fr, m, c.args[1])
	if i >= 0 {
		c.ret(Tuple{m.Entries[i].V, TrueT})
		return
	}
	syncMapSet(c, fp, m, -1, c.args[1], c.args[2], false)
	c.ret(Tuple{c.args[2], FalseT})
}

func intrSyncMapLoadAndDelete(c *icall) {
	fp, m := syncMapOp(c, true)
	i := c.e.findKey(c.w, c.st, c.g, c.fr, m, c.args[1])
	if i < 0 {
		c.ret(Tuple{c.anyZero(), FalseT})
		return
	}
	v := m.Entries[i].V
	syncMapSet(c, fp, m, i, nil, nil, true)
	c.ret(Tuple{v, TrueT})
}

func intrSyncMapDelete(c *icall) {
	fp, m := syncMapOp(c, true)
	if i := c.e.findKey(c.w, c.st, c.g, c.fr, m, c.args[1]); i >= 0 {
		syncMapSet(c, fp, m, i, nil, nil, true)
	}
	c.ret(nil)
}

func intrSyncMapUnsupported(c *icall) {
	unsupported(c.curPos(), "sync.Map method %s (not modelled)", c.fn.Name())
}

// ---- sync.Pool (model: a LIFO list kept in the struct's `local` field; Get reuses the most
// recently put item if there is one - the behaviour that exposes what pooled objects carry
// over - and calls New (or yields nil) otherwise. The real pool may also drop items at any
// time; that alternative, which equals "no pooling", is not explored: stated bound.) ----

const (
	syncPoolLocalField = 1 // sync.Pool{noCopy, local, localSize, victim, victimSize, New}
	syncPoolNewField   = 5
)

func syncPoolItems(c *icall, p Ptr) (Ptr, Tuple) {
	fp := p.Field(syncPoolLocalField)
	ip, _ := c.st.load(fp).(Ptr)
	if ip.IsNil() {
		return fp, nil
	}
	tu, _ := c.st.obj(ip.Obj).(Tuple)
	return fp, tu
}

func intrSyncPoolPut(c *icall) {
	p := c.args[0].(Ptr)
	nilRecv(c, p)
	c.e.visible(c.st, c.g, Op{Kind: opAtomic, Obj: keyOf(p), Ptr: p, Write: true, Pos: c.curPos()})
	if c.st.race != nil {
		c.st.race.onRelease(c.g, keyOf(p))
		c.st.race.onAcquire(c.g, keyOf(p))
	}
	if iv, ok := c.args[1].(Iface); ok && iv.T == nil {
		c.ret(nil) // Put(nil) is ignored
		return
	}
	fp, items := syncPoolItems(c, p)
	n := make(Tuple, len(items)+1)
	copy(n, items)
	n[len(items)] = c.args[1]
	if ip, _ := c.st.load(fp).(Ptr); ip.IsNil() {
		c.st.store(fp, Ptr{Obj: c.st.alloc(c.g, n)})
	} else {
		c.st.setObj(ip.Obj, n)
	}
	c.ret(nil)
}

func intrSyncPoolGet(c *icall) {
	p := c.args[0].(Ptr)
	nilRecv(c, p)
	c.e.visible(c.st, c.g, Op{Kind: opAtomic, Obj: keyOf(p), Ptr: p, Write: true, Pos: c.curPos()})
	if c.st.race != nil {
		c.st.race.onRelease(c.g, keyOf(p))
		c.st.race.onAcquire(c.g, keyOf(p))
	}
	fp, items := syncPoolItems(c, p)
	if len(items) > 0 {
		ip := c.st.load(fp).(Ptr)
		v := items[len(items)-1]
		c.st.setObj(ip.Obj, append(Tuple{}, items[:len(items)-1]...))
		c.ret(v)
		return
	}
	nf, _ := c.st.load(p.Field(syncPoolNewField)).(*Closure)
	if nf == nil {
		c.ret(c.anyZero())
		return
	}
	if c.in == nil {
		unsupported(c.curPos(), "deferred sync.Pool.Get")
	}
	c.e.pushCall(c.w, c.st, c.g, nf, nil, fkCall, c.curPos())
}

// checkOffer enforces the rules registered with vRecvMustOffer(elem, done, id): when repository
// code takes a value off a channel whose element type contains elem although the channel done
// is already closed, the operation must have been a select that also offered a receive on
// done. A loop that polls such a channel first and looks at done only when it is empty never
// sees done while values keep arriving - an unbounded delay that no bounded run exhibits as a
// missing completion, which is why it is checked as a structural rule on the executed code.
func (e *Engine) checkOffer(st *State, g *G, fr *Frame, et types.Type, cases []selCase) {
	if len(st.offers) == 0 || !fr.Info.repo {
		return
	}
	name := types.TypeString(et, nil)
	for _, r := range st.offers {
		if !strings.Contains(name, r.elem) {
			continue
		}
		d := st.chanObj(ChanRef{r.done})
		if d == nil || !d.Closed {
			continue
		}
		offered := false
		for _, c := range cases {
			if !c.Send && c.Ch == r.done {
				offered = true
			}
		}
		if !offered {
			panic(failReq{&Failure{Kind: "assert", ID: r.id, Pos: e.posStr(e.instrPos(fr)), Stack: e.stackOf(g)}})
		}
	}
}
