package symgo

import (
	"fmt"
	"go/types"
	"math"
	"strings"

	"golang.org/x/tools/go/ssa"
)

func (e *Engine) registerIntrinsics() {
	byName := map[string]intrinsicFn{
		// sync
		"(*sync.Mutex).Lock":           intrMutexLock,
		"(*sync.Mutex).Unlock":         intrMutexUnlock,
		"(*sync.Mutex).TryLock":        intrMutexTryLock,
		"(*sync.RWMutex).Lock":         intrRWLock,
		"(*sync.RWMutex).Unlock":       intrRWUnlock,
		"(*sync.RWMutex).RLock":        intrRWRLock,
		"(*sync.RWMutex).RUnlock":      intrRWRUnlock,
		"(*sync.WaitGroup).Add":        intrWGAdd,
		"(*sync.Once).Do":              intrOnceDo,
		"(*sync.Pool).Get":             intrSyncPoolGet,
		"(*sync.Pool).Put":             intrSyncPoolPut,
		"(*sync.Map).Load":             intrSyncMapLoad,
		"(*sync.Map).Store":            intrSyncMapStore,
		"(*sync.Map).LoadOrStore":      intrSyncMapLoadOrStore,
		"(*sync.Map).LoadAndDelete":    intrSyncMapLoadAndDelete,
		"(*sync.Map).Delete":           intrSyncMapDelete,
		"(*sync.Map).Range":            intrSyncMapUnsupported,
		"(*sync.Map).Swap":             intrSyncMapUnsupported,
		"(*sync.Map).CompareAndSwap":   intrSyncMapUnsupported,
		"(*sync.Map).CompareAndDelete": intrSyncMapUnsupported,
		"(*sync.Map).Clear":            intrSyncMapUnsupported,
		"(*sync.WaitGroup).Done":       intrWGDone,
		// math/bits: table look-ups with a symbolic index in the real code
		"math/bits.Len64":          intrBitsLen,
		"math/bits.Len32":          intrBitsLen,
		"math/bits.Len16":          intrBitsLen,
		"math/bits.Len8":           intrBitsLen,
		"math/bits.Len":            intrBitsLen,
		"math/bits.LeadingZeros64": intrBitsLen,
		"math/bits.LeadingZeros32": intrBitsLen,
		"(*sync.WaitGroup).Wait":       intrWGWait,
		// atomics
		"sync/atomic.LoadInt32":             intrAtomicLoad,
		"sync/atomic.LoadInt64":             intrAtomicLoad,
		"sync/atomic.LoadUint32":            intrAtomicLoad,
		"sync/atomic.LoadUint64":            intrAtomicLoad,
		"sync/atomic.LoadUintptr":           intrAtomicLoad,
		"sync/atomic.LoadPointer":           intrAtomicLoad,
		"sync/atomic.StoreInt32":            intrAtomicStore,
		"sync/atomic.StoreInt64":            intrAtomicStore,
		"sync/atomic.StoreUint32":           intrAtomicStore,
		"sync/atomic.StoreUint64":           intrAtomicStore,
		"sync/atomic.StoreUintptr":          intrAtomicStore,
		"sync/atomic.StorePointer":          intrAtomicStore,
		"sync/atomic.AddInt32":              intrAtomicAdd,
		"sync/atomic.AddInt64":              intrAtomicAdd,
		"sync/atomic.AddUint32":             intrAtomicAdd,
		"sync/atomic.AddUint64":             intrAtomicAdd,
		"sync/atomic.AddUintptr":            intrAtomicAdd,
		"sync/atomic.SwapInt32":             intrAtomicSwap,
		"sync/atomic.SwapInt64":             intrAtomicSwap,
		"sync/atomic.SwapUint32":            intrAtomicSwap,
		"sync/atomic.SwapUint64":            intrAtomicSwap,
		"sync/atomic.SwapPointer":           intrAtomicSwap,
		"sync/atomic.CompareAndSwapInt32":   intrAtomicCAS,
		"sync/atomic.CompareAndSwapInt64":   intrAtomicCAS,
		"sync/atomic.CompareAndSwapUint32":  intrAtomicCAS,
		"sync/atomic.CompareAndSwapUint64":  intrAtomicCAS,
		"sync/atomic.CompareAndSwapPointer": intrAtomicCAS,
		// time / rand / math / log / runtime
		"time.Now":             func(c *icall) { c.ret(c.e.zero(c.fn.Signature.Results().At(0).Type())) },
		"time.Since":           func(c *icall) { c.ret(BV(64, 0)) },
		"time.Until":           func(c *icall) { c.ret(BV(64, 0)) },
		"time.Sleep":           func(c *icall) { c.ret(nil) },
		"(time.Time).UnixNano": func(c *icall) { c.ret(BV(64, 0)) },
		"math/rand.Float64":    func(c *icall) { c.ret(Float(0.5)) },
		"math/rand.NewSource":  func(c *icall) { c.ret(Iface{}) },
		"math/rand.New":        func(c *icall) { c.ret(Ptr{}) },
		"math/rand.Intn":       func(c *icall) { c.ret(BV(64, 0)) },
		"math.Min":             func(c *icall) { c.ret(Float(math.Min(float64(c.args[0].(Float)), float64(c.args[1].(Float))))) },
		"math.Max":             func(c *icall) { c.ret(Float(math.Max(float64(c.args[0].(Float)), float64(c.args[1].(Float))))) },
		"math.Pow":             func(c *icall) { c.ret(Float(math.Pow(float64(c.args[0].(Float)), float64(c.args[1].(Float))))) },
		"math.Float64bits":     func(c *icall) { c.ret(BV(64, math.Float64bits(float64(c.args[0].(Float))))) },
		"runtime.Gosched":      func(c *icall) { c.ret(nil) },
		"runtime.KeepAlive":    func(c *icall) { c.ret(nil) },
		"log.Printf":           intrNop, "log.Println": intrNop, "log.Print": intrNop,
		"(*log.Logger).Printf": intrNop, "(*log.Logger).Println": intrNop, "(*log.Logger).Print": intrNop,
		"log.Fatalf": intrLogFatal, "log.Fatal": intrLogFatal, "log.Fatalln": intrLogFatal,
		"(*log.Logger).Fatalf": intrLogFatal, "(*log.Logger).Fatal": intrLogFatal,
		// fmt
		"fmt.Errorf":   intrErrorf,
		"fmt.Sprintf":  intrSprintf,
		"fmt.Sprint":   intrSprint,
		"fmt.Sprintln": intrSprint,
		"fmt.Println":  intrNopTuple, "fmt.Printf": intrNopTuple, "fmt.Print": intrNopTuple,
		"fmt.Fprintf": intrNopTuple, "fmt.Fprintln": intrNopTuple, "fmt.Fprint": intrNopTuple,
		"strconv.Itoa": func(c *icall) {
			t := c.args[0].(*Term)
			if !t.IsConst() {
				unsupported(c.pos(), "strconv.Itoa of symbolic value")
			}
			c.ret(Str{S: fmt.Sprint(t.SVal())})
		},
		"internal/stringslite.Clone": func(c *icall) { c.ret(c.args[0]) },
		"strings.Clone":              func(c *icall) { c.ret(c.args[0]) },
		"internal/bytealg.IndexByteString": func(c *icall) {
			s := c.args[0].(Str)
			b := c.args[1].(*Term)
			if s.IsSym() || !b.IsConst() {
				c.ret(symIndexByte(c, s, b))
				return
			}
			c.ret(BV(64, uint64(int64(strings.IndexByte(s.S, byte(b.K))))))
		},
		"strings.IndexByte": func(c *icall) {
			s := c.args[0].(Str)
			b := c.args[1].(*Term)
			if s.IsSym() || !b.IsConst() {
				c.ret(symIndexByte(c, s, b))
				return
			}
			c.ret(BV(64, uint64(int64(strings.IndexByte(s.S, byte(b.K))))))
		},
		"strings.Index": func(c *icall) {
			s, t := c.args[0].(Str), c.args[1].(Str)
			if s.IsSym() && !t.IsSym() && len(t.S) == 1 {
				c.ret(symIndexByte(c, s, BV(8, uint64(t.S[0]))))
				return
			}
			if s.IsSym() || t.IsSym() {
				unsupported(c.pos(), "strings.Index on symbolic data")
			}
			c.ret(BV(64, uint64(int64(strings.Index(s.S, t.S)))))
		},
		"strings.ToLower": func(c *icall) {
			s := c.args[0].(Str)
			if s.IsSym() {
				unsupported(c.pos(), "strings.ToLower on symbolic data")
			}
			c.ret(Str{S: strings.ToLower(s.S)})
		},
		"strings.HasPrefix": func(c *icall) {
			s, t := c.args[0].(Str), c.args[1].(Str)
			if s.Len() < t.Len() {
				c.ret(FalseT)
				return
			}
			r := TrueT
			for i := 0; i < t.Len(); i++ {
				r = And(r, Eq(s.Byte(i), t.Byte(i)))
			}
			c.ret(r)
		},
	}
	e.intrByName = byName
	for name, fn := range byName {
		if f := e.funcByName(name); f != nil {
			e.intrByFn[f] = fn
		}
	}
	for _, n := range []string{"(*sync.Mutex).Lock", "(*sync.Mutex).Unlock", "(*sync.RWMutex).Lock", "(*sync.RWMutex).Unlock",
		"(*sync.RWMutex).RLock", "(*sync.RWMutex).RUnlock", "(*sync.WaitGroup).Add", "(*sync.WaitGroup).Done", "(*sync.WaitGroup).Wait"} {
		if f := e.funcByName(n); f != nil {
			e.visibleIntr[f] = true
		}
	}
	// harness primitives: functions named v* declared in overlay files
	for _, sp := range e.prog.AllPackages() {
		for _, m := range sp.Members {
			fn, ok := m.(*ssa.Function)
			if !ok {
				continue
			}
			if in, ok := vprims[fn.Name()]; ok {
				pos := fn.Pos()
				if pos.IsValid() && e.overlayFiles[e.prog.Fset.Position(pos).Filename] {
					e.intrByFn[fn] = in
				}
			}
		}
	}
}

func intrNop(c *icall) { c.ret(nil) }

var opaqueNamed = types.NewNamed(types.NewTypeName(0, nil, "verif.opaque", nil), types.NewStruct(nil, nil), nil)

// opaqueOf builds an opaque non-nil value of static type t.
func (e *Engine) opaqueOf(st *State, g *G, t types.Type, tag string) Value {
	switch u := t.Underlying().(type) {
	case *types.Pointer:
		var v Value = Opaque{Tag: tag}
		if _, ok := u.Elem().Underlying().(*types.Struct); ok {
			func() {
				defer func() {
					if r := recover(); r != nil {
						v = Opaque{Tag: tag}
					}
				}()
				v = e.zero(u.Elem())
			}()
		}
		return Ptr{Obj: st.alloc(g, v)}
	case *types.Interface:
		st.opaqueN++
		return Iface{T: opaqueNamed, V: Opaque{Tag: tag, ID: 0}}
	case *types.Tuple:
		out := make(Tuple, u.Len())
		for i := range out {
			out[i] = e.opaqueOf(st, g, u.At(i).Type(), tag)
		}
		return out
	case *types.Signature:
		return &Closure{Builtin: "opaque-func:" + tag}
	}
	return e.zero(t)
}

func intrOpaque(c *icall) {
	res := c.fn.Signature.Results()
	switch res.Len() {
	case 0:
		c.ret(nil)
	case 1:
		c.ret(c.e.opaqueOf(c.st, c.g, res.At(0).Type(), c.fn.String()))
	default:
		c.ret(c.e.opaqueOf(c.st, c.g, res, c.fn.String()))
	}
}

func vComparable(c *icall) {
	iv, ok := c.args[0].(Iface)
	c.ret(BoolC(ok && iv.T != nil && types.Comparable(iv.T)))
}
func intrNopTuple(c *icall) {
	c.ret(Tuple{BV(64, 0), Iface{}})
}

// log.Fatal*: a diagnostic exit. Modelled as a Go panic so that harnesses can observe it with
// vExpectPanic; outside such a region it crashes the path (engine monitor).
func intrLogFatal(c *icall) {
	c.e.goPanic(c.st, c.g, Str{S: "log.Fatal: diagnostic exit"}, "log.Fatal: diagnostic exit", c.curPos())
	panic(rtPanicSignal{})
}

// ---- fmt models ----

func (e *Engine) namedType(pkg, name string) types.Type {
	sp := e.spkgs[pkg]
	if sp == nil {
		return nil
	}
	if t, ok := sp.Members[name].(*ssa.Type); ok {
		return t.Type()
	}
	return nil
}

// render produces a best-effort concrete rendering of a value for %v / %s / %d.
func (e *Engine) render(st *State, v Value) string {
	switch x := v.(type) {
	case Iface:
		if x.T == nil {
			return "<nil>"
		}
		// well-known error types
		if p, ok := x.V.(Ptr); ok && !p.IsNil() {
			switch typeKey(x.T) {
			case "*errors.errorString":
				return e.render(st, st.load(p.Field(0)))
			case "*fmt.wrapError":
				return e.render(st, st.load(p.Field(0)))
			}
		}
		if isString(x.T) || isInteger(x.T) || isBoolean(x.T) || isFloat(x.T) {
			return e.render(st, x.V)
		}
		return "<" + typeKey(x.T) + ">"
	case *Term:
		if x.IsConst() {
			if x.W == 0 {
				return fmt.Sprint(x.K == 1)
			}
			return fmt.Sprint(x.SVal())
		}
		return "<sym>"
	case Str:
		if x.IsSym() {
			return "<symstr>"
		}
		return x.S
	case Float:
		return fmt.Sprint(float64(x))
	}
	return "<" + fmt.Sprintf("%T", v) + ">"
}

func (e *Engine) sliceVals(st *State, v Value) []Value {
	s, ok := v.(Slice)
	if !ok {
		return nil
	}
	out := make([]Value, s.Len)
	for i := range out {
		out[i] = st.load(s.Base.Field(s.Off + i))
	}
	return out
}

func (e *Engine) formatMsg(st *State, format string, args []Value) (string, Value) {
	var sb strings.Builder
	var wrapped Value
	ai := 0
	for i := 0; i < len(format); i++ {
		ch := format[i]
		if ch != '%' || i+1 >= len(format) {
			sb.WriteByte(ch)
			continue
		}
		// parse verb (skip flags/width)
		j := i + 1
		for j < len(format) && strings.IndexByte("+-# 0123456789.", format[j]) >= 0 {
			j++
		}
		if j >= len(format) {
			break
		}
		verb := format[j]
		i = j
		if verb == '%' {
			sb.WriteByte('%')
			continue
		}
		if ai >= len(args) {
			sb.WriteString("%!" + string(verb) + "(MISSING)")
			continue
		}
		a := args[ai]
		ai++
		switch verb {
		case 'w':
			wrapped = a
			sb.WriteString(e.render(st, a))
		case 'q':
			sb.WriteString(fmt.Sprintf("%q", e.render(st, a)))
		case 'T':
			if iv, ok := a.(Iface); ok && iv.T != nil {
				sb.WriteString(typeKey(iv.T))
			} else {
				sb.WriteString("<nil>")
			}
		default:
			sb.WriteString(e.render(st, a))
		}
	}
	return sb.String(), wrapped
}

func (e *Engine) newErrorString(st *State, g *G, msg string) Value {
	t := e.namedType("errors", "errorString")
	if t == nil {
		panic(abort{kind: "internal", msg: "errors.errorString not loaded"})
	}
	id := st.alloc(g, Tuple{Str{S: msg}})
	return Iface{T: types.NewPointer(t), V: Ptr{Obj: id}}
}

func intrErrorf(c *icall) {
	f, ok := c.args[0].(Str)
	if !ok || f.IsSym() {
		unsupported(c.pos(), "fmt.Errorf with symbolic format")
	}
	msg, wrapped := c.e.formatMsg(c.st, f.S, c.e.sliceVals(c.st, c.args[1]))
	if wrapped != nil {
		if wt := c.e.namedType("fmt", "wrapError"); wt != nil {
			id := c.st.alloc(c.g, Tuple{Str{S: msg}, wrapped})
			c.ret(Iface{T: types.NewPointer(wt), V: Ptr{Obj: id}})
			return
		}
	}
	c.ret(c.e.newErrorString(c.st, c.g, msg))
}

func intrSprintf(c *icall) {
	f, ok := c.args[0].(Str)
	if !ok || f.IsSym() {
		unsupported(c.pos(), "fmt.Sprintf with symbolic format")
	}
	msg, _ := c.e.formatMsg(c.st, f.S, c.e.sliceVals(c.st, c.args[1]))
	c.ret(Str{S: msg})
}

func intrSprint(c *icall) {
	var parts []string
	for _, a := range c.e.sliceVals(c.st, c.args[0]) {
		parts = append(parts, c.e.render(c.st, a))
	}
	c.ret(Str{S: strings.Join(parts, " ")})
}

// ---- harness primitives ----

var vprims map[string]intrinsicFn

func init() {
	vprims = map[string]intrinsicFn{
		"vBool":           func(c *icall) { c.ret(c.fresh(c.strArg(0), 0)) },
		"vInt":            func(c *icall) { c.ret(c.fresh(c.strArg(0), 64)) },
		"vUint64":         func(c *icall) { c.ret(c.fresh(c.strArg(0), 64)) },
		"vUint32":         func(c *icall) { c.ret(c.fresh(c.strArg(0), 32)) },
		"vInt32":          func(c *icall) { c.ret(c.fresh(c.strArg(0), 32)) },
		"vByte":           func(c *icall) { c.ret(c.fresh(c.strArg(0), 8)) },
		"vRange":          vRange,
		"vChoice":         vChoice,
		"vAssume":         vAssume,
		"vAssert":         vAssert,
		"vReach":          func(c *icall) { c.e.res.reach(c.strArg(0)); c.ret(nil) },
		"vKnown":          vKnown,
		"vWatch":          vWatch,
		"vRecvMustOffer":  vRecvMustOffer,
		"vExpectPanic":    vExpectPanic,
		"vObserve":        vObserve,
		"vQuiescent":      vQuiescent,
		"vFreezeEnv":      func(c *icall) { vEnvSet(c, true) },
		"vUnfreezeEnv":    func(c *icall) { vEnvSet(c, false) },
		"vEnvTick":        vEnvTick,
		"vAtomic":         vAtomic,
		"vAtomicEnd":      vAtomicEnd,
		"vLiveGoroutines": vLiveGoroutines,
		"vUF32":           vUF32,
		"vSyncMapSnapshot": vSyncMapSnapshot,
		"vSymString":      vSymString,
		"vBytes":          vBytes,
		"vBytesEqual":     vBytesEqual,
		"vYield":          intrNop,
		"vNativeSettle":   intrNop,
		"vIsEngine":       func(c *icall) { c.ret(TrueT) },
		"vConcrete":       vConcrete,
		"vTrace":          vTrace,
		"vFail":           vFail,
		"vComparable":     vComparable,
	}
}

func (c *icall) strArg(i int) string {
	s, ok := c.args[i].(Str)
	if !ok || s.IsSym() {
		unsupported(c.pos(), "harness primitive needs a concrete string argument")
	}
	return s.S
}

func (c *icall) intArg(i int) int {
	t := c.args[i].(*Term)
	if !t.IsConst() {
		unsupported(c.pos(), "harness primitive needs a concrete integer argument")
	}
	return int(t.SVal())
}

// fresh symbol named name#<goroutine>.<counter>
func (c *icall) fresh(name string, w uint8) *Term {
	c.g.SymN++
	return Sym(fmt.Sprintf("%s#%d.%d", name, c.g.ID, c.g.SymN), w)
}

func vRange(c *icall) {
	lo, hi := c.intArg(1), c.intArg(2)
	x := c.fresh(c.strArg(0), 64)
	c.st.addPC(CmpBV(OpBVSle, BV(64, uint64(int64(lo))), x))
	c.st.addPC(CmpBV(OpBVSle, x, BV(64, uint64(int64(hi)))))
	c.ret(x)
}

func vChoice(c *icall) {
	n := c.intArg(1)
	if n <= 0 {
		panic(abort{kind: "assume", msg: "vChoice with no alternatives"})
	}
	if n == 1 {
		c.ret(BV(64, 0))
		return
	}
	lits := make([]*Term, n)
	for i := range lits {
		lits[i] = TrueT
	}
	i := c.e.decide(c.w, c.st, "choice", c.strArg(0), lits)
	c.ret(BV(64, uint64(i)))
}

func vAssume(c *icall) {
	t := c.args[0].(*Term)
	if t.IsTrue() {
		c.ret(nil)
		return
	}
	if t.IsFalse() {
		panic(abort{kind: "assume", msg: "assumption false"})
	}
	ok, m := c.w.feasible(c.st, t)
	if !ok {
		panic(abort{kind: "assume", msg: "assumption infeasible"})
	}
	c.st.addPC(t)
	c.st.model = m
	c.ret(nil)
}

func vAssert(c *icall) {
	t := c.args[0].(*Term)
	id := c.strArg(1)
	if t.IsTrue() {
		c.ret(nil)
		return
	}
	neg := Not(t)
	var r SatResult
	if t.IsFalse() {
		r = Sat
	} else {
		r = c.w.checkWith(c.st, neg)
	}
	switch r {
	case Unsat:
		c.ret(nil)
		return
	case Unknown:
		panic(abort{kind: "inconclusive", msg: "assertion " + id + ": solver returned unknown"})
	}
	f := &Failure{Kind: "assert", ID: id, Pos: c.e.posStr(c.curPos()), Stack: c.e.stackOf(c.g)}
	if c.e.cfg.Debug {
		for _, t := range c.st.pc {
			f.Detail += t.String() + " ; "
		}
	}
	f.Model = c.w.modelFor(c.st, neg)
	panic(failReq{f})
}

func vFail(c *icall) {
	f := &Failure{Kind: "assert", ID: c.strArg(0), Pos: c.e.posStr(c.curPos()), Stack: c.e.stackOf(c.g)}
	f.Model = c.w.modelFor(c.st, nil)
	panic(failReq{f})
}

func vKnown(c *icall) {
	id := c.strArg(0)
	t := c.args[1].(*Term)
	var v bool
	if t.IsConst() {
		v = t.IsTrue()
	} else {
		v = c.e.decide(c.w, c.st, "known", id, []*Term{t, Not(t)}) == 0
	}
	if v {
		if c.st.known == nil {
			c.st.known = map[string]bool{}
		}
		c.st.known[id] = true
	}
	c.ret(BoolC(v))
}

// vWatch(name, p): see State.watches.
func vWatch(c *icall) {
	if p, ok := c.args[1].(Ptr); ok && !p.Obj.IsNil() {
		c.st.watches = append(c.st.watches, watch{name: c.strArg(0), p: p})
	}
	c.ret(nil)
}

// vRecvMustOffer(elem, done, id): see Engine.checkOffer.
func vRecvMustOffer(c *icall) {
	ch := c.e.chanOf(c.args[1])
	if !ch.IsNil() {
		c.st.offers = append(c.st.offers, offerRule{elem: c.strArg(0), done: ch, id: c.strArg(2)})
	}
	c.ret(nil)
}

func vExpectPanic(c *icall) {
	f := c.args[0].(*Closure)
	c.e.pushFrame(c.st, c.g, f.Fn, nil, f.Bind, fkExpectPanic)
}

func vObserve(c *icall) {
	name := c.strArg(0)
	s := name + "=" + c.e.render(c.st, c.args[1])
	c.st.obs = &obsNode{s: s, prev: c.st.obs}
	c.ret(nil)
}

func vTrace(c *icall) {
	if c.e.cfg.Trace {
		fmt.Printf("TRACE g%d: %s\n", c.g.ID, c.e.render(c.st, c.args[0]))
	}
	c.ret(nil)
}

func vQuiescent(c *icall) {
	c.e.visible(c.st, c.g, Op{Kind: opQuiescent, Universal: true, Pos: c.curPos()})
	if c.st.race != nil {
		c.st.race.onBarrier(c.st, c.g)
	}
	c.ret(nil)
}

func vEnvSet(c *icall, frozen bool) {
	c.e.visible(c.st, c.g, Op{Kind: opVAtomic, Objs: []ObjKey{envKey}, Write: true, Pos: c.curPos()})
	c.st.envFrozen = frozen
	c.ret(nil)
}

var envKey = ObjKey{Obj: ObjID{}, P: 0xe7}

func vEnvTick(c *icall) {
	// the env channel is a static object created on first use
	st := c.st
	st.ensureG(0)
	// keep it out of the dense global array: use a dedicated slot right after the globals
	id := ObjID{G: 0, N: uint32(len(c.e.globalsBy) + 1)}
	if st.obj(id) == nil {
		st.setStatic(id.N, &ChanObj{EnvTick: true})
	}
	c.ret(ChanRef{Obj: id})
}

func vAtomic(c *icall) {
	kind := c.intArg(0)
	var objs []ObjKey
	for _, a := range c.e.sliceVals(c.st, c.args[1]) {
		iv, ok := a.(Iface)
		if !ok || iv.T == nil {
			continue
		}
		switch x := iv.V.(type) {
		case Ptr:
			if !x.IsNil() {
				objs = append(objs, ObjKey{Obj: x.Obj})
			}
		case ChanRef:
			if !x.Obj.IsNil() {
				objs = append(objs, ObjKey{Obj: x.Obj})
			}
		case MapRef:
			if !x.Obj.IsNil() {
				objs = append(objs, ObjKey{Obj: x.Obj})
			}
		}
	}
	if c.g.Atomic == 0 {
		op := Op{Kind: opVAtomic, Objs: objs, Write: kind >= 1, Universal: kind == 2, Pos: c.curPos()}
		if kind == 3 && len(objs) > 0 {
			op.DynRoot = &Ptr{Obj: objs[0].Obj}
		}
		c.e.visible(c.st, c.g, op)
		if c.st.race != nil {
			// an atomic section synchronises on its declared objects (the real code it models
			// uses a mutex there)
			for _, k := range objs {
				c.st.race.onAcquire(c.g, k)
				if kind >= 1 {
					c.st.race.onRelease(c.g, k)
				}
			}
		}
	}
	c.g.Atomic++
	c.ret(nil)
}

func vAtomicEnd(c *icall) {
	if c.g.Atomic > 0 {
		c.g.Atomic--
	}
	c.ret(nil)
}

func vLiveGoroutines(c *icall) {
	prefix := c.strArg(0)
	n := 0
	for _, g := range c.st.gs {
		if g.Status == gDone || g.IsMain || g.Root == nil {
			continue
		}
		fi := c.e.info(g.Root)
		if fi.overlay {
			continue
		}
		if strings.HasPrefix(fi.pkgPath, prefix) {
			n++
		}
	}
	c.ret(BV(64, uint64(n)))
}

// vSyncMapSnapshot(m *sync.Map) []interface{}: keys and values of the modelled map, alternating,
// read in one atomic transition (the Go-level stub of Range iterates over this snapshot).
func vSyncMapSnapshot(c *icall) {
	_, m := syncMapOp(c, false)
	var tu Tuple
	if m != nil {
		for _, en := range m.Entries {
			tu = append(tu, en.K, en.V)
		}
	}
	if len(tu) == 0 {
		c.ret(Slice{})
		return
	}
	id := c.st.alloc(c.g, tu)
	c.ret(Slice{Base: Ptr{Obj: id}, Len: len(tu), Cap: len(tu)})
}

func vUF32(c *icall) {
	name := c.strArg(0)
	var args []*Term
	for _, a := range c.e.sliceVals(c.st, c.args[1]) {
		args = append(args, a.(*Term))
	}
	c.ret(UF("uf_"+name, 32, args...))
}

func vSymString(c *icall) {
	name := c.strArg(0)
	n := c.intArg(1)
	b := make([]*Term, n)
	for i := range b {
		b[i] = c.fresh(fmt.Sprintf("%s[%d]", name, i), 8)
	}
	if n == 0 {
		c.ret(Str{})
		return
	}
	c.ret(Str{B: b})
}

// vConcrete forks over the feasible values of a symbolic int (at most 16).
func vConcrete(c *icall) {
	c.ret(BV(64, uint64(int64(c.e.concreteInt(c.w, c.st, c.g, c.fr, c.args[0], "vConcrete")))))
}

// intrBitsLen models math/bits.Len* / LeadingZeros*: the real code indexes a 256-entry table
// with (part of) its argument; for a symbolic argument the result is the if-then-else chain
// "number of the highest set bit + 1" (int, 64 bit).
func intrBitsLen(c *icall) {
	x, ok := c.args[0].(*Term)
	if !ok {
		unsupported(c.curPos(), "math/bits.%s on a non-integer value", c.fn.Name())
	}
	w := int(x.W)
	res := BV(64, 0)
	for i := 0; i < w; i++ {
		// if x >= 2^i then at least i+1 (built from the lowest bit upwards, so the last
		// satisfied condition wins)
		res = Ite(CmpBV(OpBVUle, BV(x.W, uint64(1)<<uint(i)), x), BV(64, uint64(i+1)), res)
	}
	if strings.HasPrefix(c.fn.Name(), "LeadingZeros") {
		res = BinBV(OpBVSub, BV(64, uint64(w)), res)
	}
	c.ret(res)
}

// symIndexByte: index of the first byte equal to b in a string of concrete length with symbolic
// bytes. Forks over the position (each feasible position is one path, so that the result - and
// whatever is sliced with it - stays concrete).
func symIndexByte(c *icall, s Str, b *Term) Value {
	bs := s.Bytes()
	lits := make([]*Term, 0, len(bs)+1)
	none := TrueT
	for i := range bs {
		lits = append(lits, And(none, Eq(bs[i], b)))
		none = And(none, Not(Eq(bs[i], b)))
	}
	lits = append(lits, none)
	k := c.e.decide(c.w, c.st, "indexbyte", c.e.posStr(c.curPos()), lits)
	if k == len(bs) {
		return BV(64, uint64(0xFFFFFFFFFFFFFFFF))
	}
	return BV(64, uint64(k))
}
