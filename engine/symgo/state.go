package symgo

import (
	"fmt"
	"go/token"
	"go/types"
	"strings"

	"golang.org/x/tools/go/ssa"
)

type frameKind uint8

const (
	fkCall        frameKind = iota // ordinary call: result goes to the caller's call instruction
	fkDefer                        // deferred call run by RunDefers / panic unwinding: result discarded
	fkRoot                         // root of a goroutine
	fkExpectPanic                  // callee of vExpectPanic: a panic escaping it is caught
	fkInit                         // lenient package initialiser
	fkDiscard                      // call whose result is discarded and caller pc advanced by hook
)

type deferred struct {
	Fn   *Closure // callee (closure or plain function)
	Args []Value
	Pos  token.Pos // the defer statement
	// for invoke-mode defers the method is resolved at defer time
}

type Frame struct {
	Fn     *ssa.Function
	Info   *fnInfo
	Block  *ssa.BasicBlock
	Prev   *ssa.BasicBlock
	PC     int
	Env    []Value
	Defers []deferred
	Kind   frameKind
	// panic unwinding in progress in this frame (running its defers)
	Unwinding    bool
	Recovered    bool
	Lenient      bool // inside a lenient init
	pendingPanic *panicState
	Once         *Ptr // frame is the body of a sync.Once.Do: mark done when it is popped
}

// offerRule: a receive of a value whose channel element type contains elem, performed by
// repository code while the channel done is closed, must have been a select that also offered
// a receive on done (see checkOffer).
type offerRule struct {
	elem string
	done ObjID
	id   string
}

type watch struct {
	name string
	p    Ptr
}

type panicState struct {
	Val   Value
	Pos   token.Pos
	GoMsg string // runtime error text if a runtime panic
	stack []string
}

type gStatus uint8

const (
	gRunnable gStatus = iota // has invisible work to do
	gParked                  // in front of a visible operation (Pending set)
	gDone
)

type G struct {
	ID        uint32 // canonical id
	Frames    []*Frame
	Status    gStatus
	Pending   *Op
	Granted   *Grant // set by the scheduler when the pending op may execute
	Panic     *panicState
	AllocN    uint32
	SpawnN    uint32
	SymN      uint32
	Root      *ssa.Function
	Atomic    int
	IsMain    bool
	Announced []ObjKey // RWMutex write locks announced but not yet acquired
}

type obsNode struct {
	s    string
	prev *obsNode
}

type decision struct {
	Kind string // "sched", "branch", "choice", ...
	Desc string
	Val  int
	Prev *decision
	N    int
	T    *schedInfo // scheduling decisions: the transition in structured form (native replay)
}

// schedInfo describes one granted transition for the native schedule replay.
type schedInfo struct {
	G          uint32
	Kind       opKind
	Pos        token.Pos
	Case       int
	Partner    uint32
	PCase      int
	PartnerPos token.Pos
	// Stub: the operation executes inside engine-only stub code (zz_verif_stubs.go or a
	// //verif:stub body); Caller is then the call site in the innermost frame outside it.
	Stub   bool
	Caller token.Pos
}

type State struct {
	heap  [][]Value
	owned []bool
	gs    []*G

	pc  []*Term
	pcA uint64 // commutative hash of pc
	pcB uint64

	dec        *decision
	envFrozen  bool
	forced     int // forced alternative for the next decide(), -1 none
	forcedV    uint64
	hasForcedV bool
	opaqueN    int
	nInstr     int
	nTrans     int
	mainDone   bool
	undecided  bool // a branch on this path was taken although the solver could not decide its feasibility

	// vObserve trace of this path (translator validation)
	obs *obsNode

	// model satisfying pc (nil if unknown)
	model *Model

	// race monitor (nil when disabled)
	race *raceState

	// symbol name counters for main-less contexts
	known map[string]bool // known-finding regions active on this path
	// watches (vWatch): named memory words whose current value is appended to the descriptor
	// of a parked goroutine whose innermost repository method has the same receiver object;
	// registered during set-up, append-only (the slice is shared copy-on-append)
	watches []watch
	// offer rules (vRecvMustOffer): see checkOffer
	offers []offerRule
}

func newState() *State {
	return &State{forced: -1}
}

func (st *State) Clone() *State {
	n := &State{
		heap:      make([][]Value, len(st.heap)),
		owned:     make([]bool, len(st.heap)),
		gs:        make([]*G, len(st.gs)),
		pc:        st.pc[:len(st.pc):len(st.pc)],
		pcA:       st.pcA,
		pcB:       st.pcB,
		dec:       st.dec,
		envFrozen: st.envFrozen,
		forced:    -1,
		opaqueN:   st.opaqueN,
		nInstr:    st.nInstr,
		nTrans:    st.nTrans,
		mainDone:  st.mainDone,
		undecided: st.undecided,
		obs:       st.obs,
		model:     st.model,
		watches:   st.watches[:len(st.watches):len(st.watches)],
		offers:    st.offers[:len(st.offers):len(st.offers)],
	}
	copy(n.heap, st.heap)
	for i := range st.owned {
		st.owned[i] = false
	}
	for i, g := range st.gs {
		n.gs[i] = g.clone()
	}
	if st.race != nil {
		n.race = st.race.clone()
	}
	if st.known != nil {
		n.known = make(map[string]bool, len(st.known))
		for k, v := range st.known {
			n.known[k] = v
		}
	}
	return n
}

func (g *G) clone() *G {
	n := *g
	n.Frames = make([]*Frame, len(g.Frames))
	for i, f := range g.Frames {
		nf := *f
		nf.Env = make([]Value, len(f.Env))
		copy(nf.Env, f.Env)
		if len(f.Defers) > 0 {
			nf.Defers = make([]deferred, len(f.Defers))
			copy(nf.Defers, f.Defers)
		}
		n.Frames[i] = &nf
	}
	if g.Pending != nil {
		p := *g.Pending
		n.Pending = &p
	}
	n.Granted = nil
	return &n
}

func (st *State) addDecision(kind, desc string, val int) {
	n := 1
	if st.dec != nil {
		n = st.dec.N + 1
	}
	st.dec = &decision{Kind: kind, Desc: desc, Val: val, Prev: st.dec, N: n}
}

func (st *State) decisionList() []*decision {
	var out []*decision
	for d := st.dec; d != nil; d = d.Prev {
		out = append(out, d)
	}
	for i, j := 0, len(out)-1; i < j; i, j = i+1, j-1 {
		out[i], out[j] = out[j], out[i]
	}
	return out
}

func (st *State) addPC(t *Term) {
	if t.IsTrue() {
		return
	}
	st.pc = append(st.pc, t)
	h1, h2 := t.Hash()
	st.pcA += mix(h1, 17)
	st.pcB += mix(h2, 29)
}

// ---- heap ----

func (st *State) alloc(g *G, v Value) ObjID {
	gid := uint32(0)
	var n uint32
	if g != nil {
		gid = g.ID
		g.AllocN++
		n = g.AllocN
	} else {
		panic("alloc without goroutine")
	}
	st.ensureG(gid)
	st.ownHeap(gid)
	for uint32(len(st.heap[gid])) <= n {
		st.heap[gid] = append(st.heap[gid], nil)
	}
	st.heap[gid][n] = v
	return ObjID{G: gid, N: n}
}

// allocStatic allocates an object in the static namespace (globals) at a fixed index.
func (st *State) setStatic(n uint32, v Value) ObjID {
	st.ensureG(0)
	st.ownHeap(0)
	for uint32(len(st.heap[0])) <= n {
		st.heap[0] = append(st.heap[0], nil)
	}
	st.heap[0][n] = v
	return ObjID{G: 0, N: n}
}

func (st *State) ensureG(gid uint32) {
	for uint32(len(st.heap)) <= gid {
		st.heap = append(st.heap, nil)
		st.owned = append(st.owned, true)
	}
}

func (st *State) ownHeap(gid uint32) {
	if !st.owned[gid] {
		c := make([]Value, len(st.heap[gid]), len(st.heap[gid])+8)
		copy(c, st.heap[gid])
		st.heap[gid] = c
		st.owned[gid] = true
	}
}

func (st *State) obj(id ObjID) Value {
	if int(id.G) >= len(st.heap) || int(id.N) >= len(st.heap[id.G]) {
		return nil
	}
	return st.heap[id.G][id.N]
}

func (st *State) setObj(id ObjID, v Value) {
	st.ownHeap(id.G)
	st.heap[id.G][id.N] = v
}

func getPath(v Value, path []int32) Value {
	for _, i := range path {
		tu, ok := v.(Tuple)
		if !ok {
			panic(abort{kind: "internal", msg: fmt.Sprintf("getPath: not a tuple: %s", valString(v))})
		}
		v = tu[i]
	}
	return v
}

func setPath(v Value, path []int32, nv Value) Value {
	if len(path) == 0 {
		return nv
	}
	tu, ok := v.(Tuple)
	if !ok {
		panic(abort{kind: "internal", msg: fmt.Sprintf("setPath: not a tuple: %s", valString(v))})
	}
	c := make(Tuple, len(tu))
	copy(c, tu)
	c[path[0]] = setPath(tu[path[0]], path[1:], nv)
	return c
}

func (st *State) load(p Ptr) Value {
	return getPath(st.obj(p.Obj), p.Path)
}

func (st *State) store(p Ptr, v Value) {
	if len(p.Path) == 0 {
		st.setObj(p.Obj, v)
		return
	}
	st.setObj(p.Obj, setPath(st.obj(p.Obj), p.Path, v))
}

func (st *State) mapObj(m MapRef) *MapObj {
	if m.Obj.IsNil() {
		return nil
	}
	return st.obj(m.Obj).(*MapObj)
}

func (st *State) chanObj(c ChanRef) *ChanObj {
	if c.Obj.IsNil() {
		return nil
	}
	return st.obj(c.Obj).(*ChanObj)
}

func (st *State) findG(id uint32) *G {
	for _, g := range st.gs {
		if g.ID == id {
			return g
		}
	}
	return nil
}

// ---- function info (value numbering) ----

type fnInfo struct {
	idx     map[ssa.Value]int
	n       int
	overlay bool // function defined in a harness overlay file
	repo    bool // function defined in a repository (non-overlay) file
	pkgPath string
	stubFor string
	atomic  bool
	// stubfile: defined in zz_verif_stubs.go (engine-only models; absent from native builds)
	stubfile bool
}

func (e *Engine) info(fn *ssa.Function) *fnInfo {
	e.infoMu.RLock()
	fi := e.infos[fn]
	e.infoMu.RUnlock()
	if fi != nil {
		return fi
	}
	e.infoMu.Lock()
	defer e.infoMu.Unlock()
	if fi = e.infos[fn]; fi != nil {
		return fi
	}
	fi = &fnInfo{idx: map[ssa.Value]int{}}
	add := func(v ssa.Value) {
		fi.idx[v] = fi.n
		fi.n++
	}
	for _, p := range fn.Params {
		add(p)
	}
	for _, fv := range fn.FreeVars {
		add(fv)
	}
	for _, b := range fn.Blocks {
		for _, in := range b.Instrs {
			if v, ok := in.(ssa.Value); ok {
				add(v)
			}
		}
	}
	// classify by source file
	pos := fn.Pos()
	root := fn
	for root.Parent() != nil {
		root = root.Parent()
	}
	if !pos.IsValid() {
		pos = root.Pos()
	}
	if root.Pkg != nil {
		fi.pkgPath = root.Pkg.Pkg.Path()
	} else if root.Origin() != nil && root.Origin().Pkg != nil {
		fi.pkgPath = root.Origin().Pkg.Pkg.Path()
	}
	if pos.IsValid() {
		file := e.prog.Fset.Position(pos).Filename
		if e.overlayFiles[file] {
			fi.overlay = true
			fi.stubfile = strings.HasSuffix(file, "zz_verif_stubs.go")
		} else if len(file) >= len(e.cfg.RepoDir) && file[:len(e.cfg.RepoDir)] == e.cfg.RepoDir {
			fi.repo = true
		}
	}
	e.infos[fn] = fi
	return fi
}

func typeKey(t types.Type) string { return types.TypeString(t, nil) }
