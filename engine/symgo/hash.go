package symgo

import (
	"go/types"
	"sync"
	"unsafe"

	"golang.org/x/tools/go/ssa"
)

// Canonical structural hashing of states (for the visited table).

type hasher struct {
	e    *Engine
	st   *State
	seen map[ObjID]bool
	todo []ObjID
	objA uint64 // commutative accumulation over reachable objects
	objB uint64
}

var typeHashes sync.Map // types.Type -> uint64

func typeHash(t types.Type) uint64 {
	if t == nil {
		return 0x51
	}
	if h, ok := typeHashes.Load(t); ok {
		return h.(uint64)
	}
	h := hashStr(types.TypeString(t, nil))
	typeHashes.Store(t, h)
	return h
}

func ptrHash(p unsafe.Pointer) uint64 { return mix(uint64(uintptr(p)), 0x77) }

func (h *hasher) ref(id ObjID) {
	if id.IsNil() {
		return
	}
	if !h.seen[id] {
		h.seen[id] = true
		h.todo = append(h.todo, id)
	}
}

func (h *hasher) val(v Value) (uint64, uint64) {
	switch x := v.(type) {
	case nil:
		return 1, 2
	case *Term:
		a, b := x.Hash()
		return mix(a, 3), mix(b, 5)
	case Float:
		u := *(*uint64)(unsafe.Pointer(&x))
		return mix(u, 7), mix(u, 11)
	case Str:
		if x.B == nil {
			s := hashStr(x.S)
			return mix(s, 13), mix(s, 17)
		}
		var a, b uint64 = 19, 23
		for _, t := range x.B {
			t1, t2 := t.Hash()
			a, b = mix(a, t1), mix(b, t2)
		}
		return a, b
	case Ptr:
		h.ref(x.Obj)
		a := mix(uint64(x.Obj.G)<<32|uint64(x.Obj.N), 29)
		b := mix(uint64(x.Obj.N)<<32|uint64(x.Obj.G), 31)
		for _, i := range x.Path {
			a, b = mix(a, uint64(i)+1), mix(b, uint64(i)+3)
		}
		return a, b
	case Tuple:
		var a, b uint64 = 37, 41
		for _, y := range x {
			y1, y2 := h.val(y)
			a, b = mix(a, y1), mix(b, y2)
		}
		return a, b
	case Slice:
		a, b := h.val(x.Base)
		k := uint64(x.Off)<<42 ^ uint64(x.Len)<<21 ^ uint64(x.Cap)
		return mix(a, k), mix(b, k+1)
	case Iface:
		if x.T == nil {
			return 43, 47
		}
		a, b := h.val(x.V)
		th := typeHash(x.T)
		return mix(a, th), mix(b, th+1)
	case *Closure:
		if x == nil {
			return 53, 59
		}
		var a, b uint64
		if x.Fn != nil {
			a = ptrHash(unsafe.Pointer(x.Fn))
		} else {
			a = hashStr(x.Builtin)
		}
		b = mix(a, 61)
		for _, y := range x.Bind {
			y1, y2 := h.val(y)
			a, b = mix(a, y1), mix(b, y2)
		}
		return a, b
	case MapRef:
		h.ref(x.Obj)
		return mix(uint64(x.Obj.G)<<32|uint64(x.Obj.N), 67), mix(uint64(x.Obj.N)<<32|uint64(x.Obj.G), 71)
	case ChanRef:
		h.ref(x.Obj)
		return mix(uint64(x.Obj.G)<<32|uint64(x.Obj.N), 73), mix(uint64(x.Obj.N)<<32|uint64(x.Obj.G), 79)
	case Opaque:
		s := hashStr(x.Tag)
		return mix(s, uint64(x.ID)), mix(s+1, uint64(x.ID))
	case *MapObj:
		// order-independent over entries
		var a, b uint64 = 83, 89
		for _, en := range x.Entries {
			k1, k2 := h.val(en.K)
			v1, v2 := h.val(en.V)
			a += mix(k1, v1)
			b += mix(k2, v2)
		}
		return a, b
	case *ChanObj:
		var a, b uint64 = 97, 101
		a = mix(a, uint64(x.Cap))
		if x.Closed {
			a = mix(a, 1)
		}
		if x.EnvTick {
			a = mix(a, 2)
		}
		for _, y := range x.Buf {
			y1, y2 := h.val(y)
			a, b = mix(a, y1), mix(b, y2)
		}
		return a, b
	case *rangeIter:
		var a, b uint64 = 103, 107
		a = mix(a, uint64(x.Pos))
		if x.IsStr {
			s1, s2 := h.val(x.S)
			return mix(a, s1), mix(b, s2)
		}
		m1, m2 := h.val(x.Map)
		a, b = mix(a, m1), mix(b, m2)
		for _, k := range x.Keys {
			k1, k2 := h.val(k)
			a, b = mix(a, k1), mix(b, k2)
		}
		return a, b
	case *SymBuf:
		if x == nil {
			return 0x5d, 0x5e
		}
		return x.hash(h)
	case SymBufElem:
		a, b := x.Buf.hash(h)
		i1, i2 := x.Idx.Hash()
		return mix(a, i1), mix(b, i2)
	}
	panic(abort{kind: "internal", msg: "hash: unknown value type " + valString(v)})
}

func (e *Engine) hashState(st *State, live *liveness) [2]uint64 {
	h := &hasher{e: e, st: st, seen: map[ObjID]bool{}}
	var a, b uint64 = 0x1234, 0x5678
	// goroutines in canonical id order (st.gs order may depend on interleaving)
	gs := make([]*G, 0, len(st.gs))
	for _, g := range st.gs {
		if g.Status != gDone {
			gs = append(gs, g)
		}
	}
	for i := 1; i < len(gs); i++ {
		for j := i; j > 0 && gs[j].ID < gs[j-1].ID; j-- {
			gs[j], gs[j-1] = gs[j-1], gs[j]
		}
	}
	for _, g := range gs {
		a = mix(a, uint64(g.ID)<<8|uint64(g.Status))
		a = mix(a, uint64(g.AllocN)<<40^uint64(g.SpawnN)<<20^uint64(g.SymN))
		b = mix(b, uint64(g.Atomic))
		for _, k := range g.Announced {
			a = mix(a, mix(uint64(k.Obj.G)<<32|uint64(k.Obj.N), k.P))
		}
		for _, fr := range g.Frames {
			a = mix(a, ptrHash(unsafe.Pointer(fr.Fn)))
			a = mix(a, uint64(fr.Block.Index)<<20|uint64(fr.PC))
			if fr.Prev != nil {
				b = mix(b, uint64(fr.Prev.Index)+1)
			}
			if fr.Unwinding {
				b = mix(b, 0xdead)
			}
			if fr.Recovered {
				b = mix(b, 0xbeef)
			}
			b = mix(b, uint64(fr.Kind))
			var lv []bool
			if live != nil {
				lv = live.liveAt(e, fr)
			}
			for i, v := range fr.Env {
				if v == nil {
					continue
				}
				if lv != nil && !lv[i] {
					continue
				}
				v1, v2 := h.val(v)
				a = mix(a, mix(uint64(i), v1))
				b = mix(b, mix(uint64(i), v2))
			}
			for _, d := range fr.Defers {
				d1, d2 := h.val(d.Fn)
				a, b = mix(a, d1), mix(b, d2)
				for _, x := range d.Args {
					x1, x2 := h.val(x)
					a, b = mix(a, x1), mix(b, x2)
				}
			}
			if fr.pendingPanic != nil {
				p1, p2 := h.val(fr.pendingPanic.Val)
				a, b = mix(a, p1), mix(b, p2)
			}
		}
		if g.Pending != nil {
			a = mix(a, uint64(g.Pending.Kind)+0x100)
		}
	}
	// static objects are roots
	if len(st.heap) > 0 {
		for n := range st.heap[0] {
			if st.heap[0][n] != nil {
				h.ref(ObjID{G: 0, N: uint32(n)})
			}
		}
	}
	for len(h.todo) > 0 {
		id := h.todo[len(h.todo)-1]
		h.todo = h.todo[:len(h.todo)-1]
		v1, v2 := h.val(st.obj(id))
		k := uint64(id.G)<<32 | uint64(id.N)
		h.objA += mix(k, v1)
		h.objB += mix(k+1, v2)
	}
	a = mix(a, h.objA)
	b = mix(b, h.objB)
	a = mix(a, st.pcA)
	b = mix(b, st.pcB)
	if st.envFrozen {
		a = mix(a, 0xf0)
	}
	if st.race != nil {
		r1, r2 := st.race.hash()
		a, b = mix(a, r1), mix(b, r2)
	}
	for k := range st.known {
		a += hashStr(k)
	}
	return [2]uint64{a, b}
}

// ---- liveness of registers (so dead values do not split states) ----

type liveness struct {
	mu    sync.Mutex
	cache map[*ssa.Function]*fnLive
}

type fnLive struct {
	// liveIn[block] = set of register indices live at block entry
	liveIn [][]bool
	// per block, per instruction index: registers live *at* (before executing) that instruction
	at map[[2]int][]bool
}

func newLiveness() *liveness { return &liveness{cache: map[*ssa.Function]*fnLive{}} }

func (l *liveness) get(e *Engine, fn *ssa.Function) *fnLive {
	l.mu.Lock()
	defer l.mu.Unlock()
	if fl, ok := l.cache[fn]; ok {
		return fl
	}
	fi := e.info(fn)
	n := fi.n
	nb := len(fn.Blocks)
	liveIn := make([][]bool, nb)
	liveOut := make([][]bool, nb)
	for i := range liveIn {
		liveIn[i] = make([]bool, n)
		liveOut[i] = make([]bool, n)
	}
	idxOf := func(v ssa.Value) int {
		if v == nil {
			return -1
		}
		if i, ok := fi.idx[v]; ok {
			return i
		}
		return -1
	}
	changed := true
	var ops []*ssa.Value
	for changed {
		changed = false
		for bi := nb - 1; bi >= 0; bi-- {
			b := fn.Blocks[bi]
			out := liveOut[bi]
			for _, s := range b.Succs {
				// live-in of successor, with phi handling
				for i, v := range liveIn[s.Index] {
					if v && !out[i] {
						out[i] = true
						changed = true
					}
				}
				// phi operands coming from b are live out of b
				var pi int
				for k, p := range s.Preds {
					if p == b {
						pi = k
						break
					}
				}
				for _, in := range s.Instrs {
					phi, ok := in.(*ssa.Phi)
					if !ok {
						break
					}
					if i := idxOf(phi.Edges[pi]); i >= 0 && !out[i] {
						out[i] = true
						changed = true
					}
				}
			}
			cur := make([]bool, n)
			copy(cur, out)
			for ii := len(b.Instrs) - 1; ii >= 0; ii-- {
				in := b.Instrs[ii]
				if v, ok := in.(ssa.Value); ok {
					if i := idxOf(v); i >= 0 {
						cur[i] = false
					}
				}
				if _, isPhi := in.(*ssa.Phi); isPhi {
					continue // phi operands handled on edges
				}
				ops = in.Operands(ops[:0])
				for _, op := range ops {
					if i := idxOf(*op); i >= 0 {
						cur[i] = true
					}
				}
				// Next mutates its iterator register
				if nx, ok := in.(*ssa.Next); ok {
					if i := idxOf(nx.Iter); i >= 0 {
						cur[i] = true
					}
				}
			}
			// phis define at block entry: they are not live-in, but keep them (defined at entry)
			for i := range cur {
				if cur[i] != liveIn[bi][i] {
					liveIn[bi][i] = cur[i]
					changed = true
				}
			}
		}
	}
	fl := &fnLive{liveIn: liveIn, at: map[[2]int][]bool{}}
	// precompute per-instruction liveness lazily in liveAt using liveOut
	fl.liveIn = liveIn
	// stash liveOut in the map under key {-1, block}
	for bi := range liveOut {
		fl.at[[2]int{-1, bi}] = liveOut[bi]
	}
	l.cache[fn] = fl
	return fl
}

// liveAt returns the registers live before executing fr's current instruction (the
// instruction's own operands included, since it will be (re-)executed).
func (l *liveness) liveAt(e *Engine, fr *Frame) []bool {
	fl := l.get(e, fr.Fn)
	key := [2]int{fr.Block.Index, fr.PC}
	l.mu.Lock()
	if v, ok := fl.at[key]; ok {
		l.mu.Unlock()
		return v
	}
	out := fl.at[[2]int{-1, fr.Block.Index}]
	l.mu.Unlock()
	fi := e.info(fr.Fn)
	cur := make([]bool, fi.n)
	copy(cur, out)
	b := fr.Block
	var ops []*ssa.Value
	for ii := len(b.Instrs) - 1; ii >= fr.PC; ii-- {
		in := b.Instrs[ii]
		if v, ok := in.(ssa.Value); ok {
			if i, ok := fi.idx[v]; ok {
				cur[i] = false
			}
		}
		if phi, isPhi := in.(*ssa.Phi); isPhi {
			// executing at a phi: operands from Prev edge are needed
			for k, p := range b.Preds {
				if p == fr.Prev {
					if i, ok := fi.idx[phi.Edges[k]]; ok {
						cur[i] = true
					}
				}
			}
			continue
		}
		ops = in.Operands(ops[:0])
		for _, op := range ops {
			if *op == nil {
				continue
			}
			if i, ok := fi.idx[*op]; ok {
				cur[i] = true
			}
		}
		if nx, ok := in.(*ssa.Next); ok {
			if i, ok := fi.idx[nx.Iter]; ok {
				cur[i] = true
			}
		}
	}
	l.mu.Lock()
	fl.at[key] = cur
	l.mu.Unlock()
	return cur
}
