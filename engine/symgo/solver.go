package symgo

import (
	"bufio"
	"fmt"
	"io"
	"os/exec"
	"sort"
	"strconv"
	"strings"
	"sync"
	"time"
)

type SatResult int

const (
	Unsat SatResult = iota
	Sat
	Unknown
)

func (r SatResult) String() string { return [...]string{"unsat", "sat", "unknown"}[r] }

type SolverStats struct {
	Queries  int64
	Sat      int64
	Unsat    int64
	Unknown  int64
	Errors   int64
	CacheHit int64
	Seconds  float64
	Restarts int64
}

// Solver is one long-lived SMT solver process speaking SMT-LIB2 over a pipe.
type Solver struct {
	Name      string
	cmd       *exec.Cmd
	in        io.WriteCloser
	out       *bufio.Reader
	Stats     SolverStats
	cache     map[[2]uint64]SatResult
	TimeoutMs int
	LastQuery string
	dead      bool
}

func solverArgv(kind string, timeoutMs int) []string {
	switch kind {
	case "z3":
		return []string{"z3", "-in", fmt.Sprintf("-t:%d", timeoutMs)}
	case "z3-new":
		return []string{"z3-new", "-in", fmt.Sprintf("-t:%d", timeoutMs)}
	case "cvc5":
		return []string{"cvc5", "--incremental", "--produce-models", "--lang=smt2", fmt.Sprintf("--tlimit-per=%d", timeoutMs)}
	}
	panic("unknown solver " + kind)
}

func NewSolver(kind string, timeoutMs int) (*Solver, error) {
	argv := solverArgv(kind, timeoutMs)
	cmd := exec.Command(argv[0], argv[1:]...)
	in, err := cmd.StdinPipe()
	if err != nil {
		return nil, err
	}
	outp, err := cmd.StdoutPipe()
	if err != nil {
		return nil, err
	}
	cmd.Stderr = cmd.Stdout
	if err := cmd.Start(); err != nil {
		return nil, err
	}
	s := &Solver{Name: kind, cmd: cmd, in: in, out: bufio.NewReaderSize(outp, 1<<16), cache: map[[2]uint64]SatResult{}, TimeoutMs: timeoutMs}
	pre := "(set-option :produce-models true)\n"
	if kind == "cvc5" {
		pre += "(set-logic ALL)\n"
	}
	io.WriteString(in, pre)
	return s, nil
}

func (s *Solver) Close() {
	if s == nil || s.dead {
		return
	}
	s.dead = true
	io.WriteString(s.in, "(exit)\n")
	s.in.Close()
	done := make(chan struct{})
	go func() { s.cmd.Wait(); close(done) }()
	select {
	case <-done:
	case <-time.After(2 * time.Second):
		s.cmd.Process.Kill()
	}
}

const doneMarker = "<<verif-done>>"

func (s *Solver) roundTrip(script string) ([]string, error) {
	s.LastQuery = script
	if _, err := io.WriteString(s.in, script+"(echo \""+doneMarker+"\")\n"); err != nil {
		return nil, err
	}
	var lines []string
	for {
		line, err := s.out.ReadString('\n')
		if err != nil {
			return lines, fmt.Errorf("solver %s died: %v", s.Name, err)
		}
		line = strings.TrimRight(line, "\r\n")
		if strings.Contains(line, doneMarker) {
			break
		}
		if line != "" {
			lines = append(lines, line)
		}
	}
	return lines, nil
}

func declsFor(p *Printer) string {
	var names []string
	for n := range p.Syms {
		names = append(names, n)
	}
	sort.Strings(names)
	var sb strings.Builder
	for _, n := range names {
		t := p.Syms[n]
		if t.Op == OpUF {
			var as []string
			for _, a := range t.Args {
				as = append(as, sortName(a.W))
			}
			fmt.Fprintf(&sb, "(declare-fun %s (%s) %s)\n", smtSymName(t.Name), strings.Join(as, " "), sortName(t.W))
		} else {
			fmt.Fprintf(&sb, "(declare-const %s %s)\n", smtSymName(t.Name), sortName(t.W))
		}
	}
	return sb.String()
}

// BuildQuery renders a self-contained query (inside push/pop) asserting all of ts.
func BuildQuery(ts []*Term, getVals []*Term) string {
	var body strings.Builder
	p := NewPrinter(&body)
	var asserts []string
	for _, t := range ts {
		asserts = append(asserts, p.Ref(t))
	}
	var gv []string
	for _, t := range getVals {
		gv = append(gv, p.Ref(t))
	}
	var sb strings.Builder
	sb.WriteString("(push 1)\n")
	sb.WriteString(declsFor(p))
	sb.WriteString(body.String())
	for _, a := range asserts {
		sb.WriteString("(assert " + a + ")\n")
	}
	sb.WriteString("(check-sat)\n")
	if len(gv) > 0 {
		// get-value is only legal after sat; errors are tolerated by the caller
		sb.WriteString("(get-value (" + strings.Join(gv, " ") + "))\n")
	}
	sb.WriteString("(pop 1)\n")
	return sb.String()
}

func queryKey(ts []*Term) [2]uint64 {
	// order-independent combination
	var a, b uint64
	for _, t := range ts {
		h1, h2 := t.Hash()
		a += mix(h1, 17)
		b += mix(h2, 29)
	}
	return [2]uint64{a, b}
}

// Check decides satisfiability of the conjunction of ts.
func (s *Solver) Check(ts []*Term) (SatResult, error) {
	// trivial cases
	var live []*Term
	for _, t := range ts {
		if t.IsFalse() {
			return Unsat, nil
		}
		if !t.IsTrue() {
			live = append(live, t)
		}
	}
	if len(live) == 0 {
		return Sat, nil
	}
	key := queryKey(live)
	if r, ok := s.cache[key]; ok {
		s.Stats.CacheHit++
		return r, nil
	}
	r, _, err := s.run(live, nil)
	if err == nil && r != Unknown {
		s.cache[key] = r
	}
	return r, err
}

// CheckModel decides satisfiability and returns values for the given terms if sat.
func (s *Solver) CheckModel(ts []*Term, vals []*Term) (SatResult, []uint64, error) {
	var live []*Term
	for _, t := range ts {
		if t.IsFalse() {
			return Unsat, nil, nil
		}
		if !t.IsTrue() {
			live = append(live, t)
		}
	}
	return s.run(live, vals)
}

// restart replaces the solver process by a fresh one (same kind and options).
func (s *Solver) restart() error {
	if s.cmd != nil && s.cmd.Process != nil {
		s.in.Close()
		s.cmd.Process.Kill()
		s.cmd.Wait()
	}
	n, err := NewSolver(s.Name, s.TimeoutMs)
	if err != nil {
		return err
	}
	s.cmd, s.in, s.out = n.cmd, n.in, n.out
	s.Stats.Restarts++
	return nil
}

func (s *Solver) run(ts []*Term, vals []*Term) (SatResult, []uint64, error) {
	q := BuildQuery(ts, vals)
	t0 := time.Now()
	lines, err := s.roundTrip(q)
	// z3's soft-timeout timer can fire late on a loaded machine and cancel the *next*
	// command ("push canceled"): the answer to this query is then worthless. A fresh process
	// has no pending cancellation: restart and ask again (once).
	for _, l := range lines {
		if strings.HasPrefix(l, "(error") && strings.Contains(l, "canceled") {
			if rerr := s.restart(); rerr == nil {
				lines, err = s.roundTrip(q)
			}
			break
		}
	}
	s.Stats.Seconds += time.Since(t0).Seconds()
	s.Stats.Queries++
	if err != nil {
		s.Stats.Errors++
		return Unknown, nil, err
	}
	res := Unknown
	got := false
	var rest []string
	for _, l := range lines {
		if !got {
			switch l {
			case "sat":
				res, got = Sat, true
				continue
			case "unsat":
				res, got = Unsat, true
				continue
			case "unknown", "timeout":
				res, got = Unknown, true
				continue
			}
		}
		if strings.HasPrefix(l, "(error") {
			if got && res != Sat && strings.Contains(l, "model is not available") {
				continue // get-value after unsat
			}
			if got && res != Sat {
				continue
			}
			s.Stats.Errors++
			return Unknown, nil, fmt.Errorf("solver %s error: %s", s.Name, l)
		}
		rest = append(rest, l)
	}
	if !got {
		s.Stats.Errors++
		return Unknown, nil, fmt.Errorf("solver %s: no verdict in %q", s.Name, strings.Join(lines, " | "))
	}
	switch res {
	case Sat:
		s.Stats.Sat++
	case Unsat:
		s.Stats.Unsat++
	default:
		s.Stats.Unknown++
	}
	var out []uint64
	if res == Sat && len(vals) > 0 {
		out, err = parseGetValue(strings.Join(rest, " "), len(vals))
		if err != nil {
			return res, nil, err
		}
	}
	return res, out, nil
}

// parseGetValue parses "((e1 v1) (e2 v2) ...)" returning the values in order.
func parseGetValue(s string, n int) ([]uint64, error) {
	toks := tokenize(s)
	pos := 0
	var parse func() interface{}
	parse = func() interface{} {
		if pos >= len(toks) {
			return nil
		}
		t := toks[pos]
		pos++
		if t == "(" {
			var l []interface{}
			for pos < len(toks) && toks[pos] != ")" {
				l = append(l, parse())
			}
			pos++
			return l
		}
		return t
	}
	root := parse()
	l, ok := root.([]interface{})
	if !ok || len(l) != n {
		return nil, fmt.Errorf("get-value: cannot parse %q", s)
	}
	out := make([]uint64, n)
	for i, e := range l {
		pair, ok := e.([]interface{})
		if !ok || len(pair) != 2 {
			return nil, fmt.Errorf("get-value: bad pair in %q", s)
		}
		v, err := parseValue(pair[1])
		if err != nil {
			return nil, err
		}
		out[i] = v
	}
	return out, nil
}

func parseValue(v interface{}) (uint64, error) {
	switch x := v.(type) {
	case string:
		switch {
		case x == "true":
			return 1, nil
		case x == "false":
			return 0, nil
		case strings.HasPrefix(x, "#x"):
			return strconv.ParseUint(x[2:], 16, 64)
		case strings.HasPrefix(x, "#b"):
			return strconv.ParseUint(x[2:], 2, 64)
		}
	case []interface{}:
		// (_ bvN W)
		if len(x) == 3 {
			if s, ok := x[1].(string); ok && strings.HasPrefix(s, "bv") {
				return strconv.ParseUint(s[2:], 10, 64)
			}
		}
	}
	return 0, fmt.Errorf("get-value: cannot parse value %v", v)
}

func tokenize(s string) []string {
	var toks []string
	i := 0
	for i < len(s) {
		c := s[i]
		switch {
		case c == '(' || c == ')':
			toks = append(toks, string(c))
			i++
		case c == ' ' || c == '\t' || c == '\n':
			i++
		case c == '|':
			j := i + 1
			for j < len(s) && s[j] != '|' {
				j++
			}
			toks = append(toks, s[i:j+1])
			i = j + 1
		default:
			j := i
			for j < len(s) && s[j] != '(' && s[j] != ')' && s[j] != ' ' && s[j] != '\t' && s[j] != '\n' {
				j++
			}
			toks = append(toks, s[i:j])
			i = j
		}
	}
	return toks
}

// SolverPool hands out one solver per worker; optionally diffing against others.
type SolverSet struct {
	Primary       *Solver
	Others        []*Solver // differential oracles
	mu            sync.Mutex
	Disagreements []string
}

func NewSolverSet(primary string, others []string, timeoutMs int) (*SolverSet, error) {
	p, err := NewSolver(primary, timeoutMs)
	if err != nil {
		return nil, err
	}
	ss := &SolverSet{Primary: p}
	for _, o := range others {
		s, err := NewSolver(o, timeoutMs)
		if err != nil {
			return nil, err
		}
		ss.Others = append(ss.Others, s)
	}
	return ss, nil
}

func (ss *SolverSet) Close() {
	ss.Primary.Close()
	for _, o := range ss.Others {
		o.Close()
	}
}

func (ss *SolverSet) Check(ts []*Term) (SatResult, error) {
	r, err := ss.Primary.Check(ts)
	if err != nil {
		return r, err
	}
	for _, o := range ss.Others {
		r2, err2 := o.Check(ts)
		if err2 != nil {
			return Unknown, err2
		}
		if r2 != r && r != Unknown && r2 != Unknown {
			msg := fmt.Sprintf("solver disagreement: %s=%s %s=%s", ss.Primary.Name, r, o.Name, r2)
			ss.Disagreements = append(ss.Disagreements, msg)
			return Unknown, fmt.Errorf("%s\n%s", msg, ss.Primary.LastQuery)
		}
	}
	return r, nil
}

func (ss *SolverSet) CheckModel(ts []*Term, vals []*Term) (SatResult, []uint64, error) {
	return ss.Primary.CheckModel(ts, vals)
}

// CheckModelDiff is CheckModel plus the differential oracles (verdict comparison only).
func (ss *SolverSet) CheckModelDiff(ts []*Term, vals []*Term) (SatResult, []uint64, error) {
	r, v, err := ss.Primary.CheckModel(ts, vals)
	if err != nil {
		return r, v, err
	}
	for _, o := range ss.Others {
		r2, err2 := o.Check(ts)
		if err2 != nil {
			return Unknown, nil, err2
		}
		if r2 != r && r != Unknown && r2 != Unknown {
			msg := fmt.Sprintf("solver disagreement: %s=%s %s=%s", ss.Primary.Name, r, o.Name, r2)
			ss.Disagreements = append(ss.Disagreements, msg)
			return Unknown, nil, fmt.Errorf("%s\n%s", msg, ss.Primary.LastQuery)
		}
	}
	return r, v, nil
}
