package symgo

import (
	"fmt"
	"go/types"
	"strings"

	"golang.org/x/tools/go/ssa"
)

// Value is one of:
//
//	*Term                 bool / integer scalars (possibly symbolic)
//	Float                 concrete float64 / float32
//	Complex               concrete complex128 (unsupported beyond zero)
//	Str                   string (concrete or symbolic bytes)
//	Ptr                   pointer (zero ObjID = nil)
//	Tuple                 struct / array / multi-value (immutable)
//	Slice                 slice header
//	*SymBuf               []byte with symbolic length (lazy buffer)
//	Iface                 interface value (T == nil: nil interface)
//	*Closure              func value (nil *Closure = nil func)
//	MapRef, ChanRef       references to heap map / channel objects
//	Opaque                value produced by an opaque constructor or lenient init
type Value interface{}

type ObjID struct {
	G uint32 // canonical goroutine id of the allocator (0 = static/global)
	N uint32 // per-goroutine allocation counter (from 1)
}

func (o ObjID) IsNil() bool { return o.G == 0 && o.N == 0 }

type Float float64

type Str struct {
	S string  // concrete contents (when B == nil)
	B []*Term // symbolic bytes (BV8), concrete length
}

func (s Str) Len() int {
	if s.B != nil {
		return len(s.B)
	}
	return len(s.S)
}
func (s Str) IsSym() bool { return s.B != nil }
func (s Str) Byte(i int) *Term {
	if s.B != nil {
		return s.B[i]
	}
	return BV(8, uint64(s.S[i]))
}
func (s Str) Bytes() []*Term {
	if s.B != nil {
		return s.B
	}
	out := make([]*Term, len(s.S))
	for i := range out {
		out[i] = BV(8, uint64(s.S[i]))
	}
	return out
}

// MkStr builds a Str from bytes, concretising when all are constant.
func MkStr(b []*Term) Str {
	all := true
	for _, t := range b {
		if !t.IsConst() {
			all = false
			break
		}
	}
	if all {
		bs := make([]byte, len(b))
		for i, t := range b {
			bs[i] = byte(t.K)
		}
		return Str{S: string(bs)}
	}
	if b == nil {
		b = []*Term{}
	}
	return Str{B: b}
}

type Ptr struct {
	Obj  ObjID
	Path []int32 // field / element indices into the object's value
}

func (p Ptr) IsNil() bool { return p.Obj.IsNil() }

func (p Ptr) Field(i int) Ptr {
	np := make([]int32, len(p.Path)+1)
	copy(np, p.Path)
	np[len(p.Path)] = int32(i)
	return Ptr{Obj: p.Obj, Path: np}
}

func samePtr(a, b Ptr) bool {
	if a.Obj != b.Obj || len(a.Path) != len(b.Path) {
		return false
	}
	for i := range a.Path {
		if a.Path[i] != b.Path[i] {
			return false
		}
	}
	return true
}

type Tuple []Value

type Slice struct {
	Base Ptr // pointer to the backing array (a Tuple); nil for nil slice
	Off  int
	Len  int
	Cap  int
}

type Iface struct {
	T types.Type
	V Value
}

func (i Iface) IsNil() bool { return i.T == nil }

type Closure struct {
	Fn   *ssa.Function
	Bind []Value
	// Builtin is set for builtin function values (rare)
	Builtin string
}

type MapRef struct{ Obj ObjID }
type ChanRef struct{ Obj ObjID }

type Opaque struct {
	Tag string
	ID  int
}

// ---- heap-resident composite objects (immutable; replaced on update) ----

type mapEntry struct {
	K, V Value
}

type MapObj struct {
	Entries []mapEntry
}

type ChanObj struct {
	Cap    int
	Buf    []Value
	Closed bool
	// EnvTick marks the special environment channel (ready iff env not frozen)
	EnvTick bool
}

// ---- zero values ----

func (e *Engine) zero(t types.Type) Value {
	switch u := t.Underlying().(type) {
	case *types.Basic:
		switch {
		case u.Info()&types.IsBoolean != 0:
			return FalseT
		case u.Info()&types.IsInteger != 0:
			return BV(e.intWidth(u), 0)
		case u.Info()&types.IsFloat != 0:
			return Float(0)
		case u.Info()&types.IsString != 0:
			return Str{}
		case u.Kind() == types.UnsafePointer:
			return Ptr{}
		case u.Kind() == types.UntypedNil:
			return Ptr{}
		case u.Info()&types.IsComplex != 0:
			return Opaque{Tag: "complex"}
		}
	case *types.Pointer:
		return Ptr{}
	case *types.Struct:
		tu := make(Tuple, u.NumFields())
		for i := range tu {
			tu[i] = e.zero(u.Field(i).Type())
		}
		return tu
	case *types.Array:
		n := int(u.Len())
		tu := make(Tuple, n)
		if n > 0 {
			z := e.zero(u.Elem())
			for i := range tu {
				tu[i] = z
			}
		}
		return tu
	case *types.Slice:
		return Slice{}
	case *types.Interface:
		return Iface{}
	case *types.Signature:
		return (*Closure)(nil)
	case *types.Map:
		return MapRef{}
	case *types.Chan:
		return ChanRef{}
	case *types.Tuple:
		tu := make(Tuple, u.Len())
		for i := range tu {
			tu[i] = e.zero(u.At(i).Type())
		}
		return tu
	case *types.TypeParam:
		panic("zero of type param")
	}
	panic(fmt.Sprintf("zero: unsupported type %v", t))
}

func (e *Engine) intWidth(b *types.Basic) uint8 {
	switch b.Kind() {
	case types.Int8, types.Uint8:
		return 8
	case types.Int16, types.Uint16:
		return 16
	case types.Int32, types.Uint32:
		return 32
	case types.Int, types.Uint, types.Int64, types.Uint64, types.Uintptr, types.UntypedInt, types.UntypedRune:
		return 64
	}
	return 64
}

func isSigned(t types.Type) bool {
	b, ok := t.Underlying().(*types.Basic)
	return ok && b.Info()&types.IsInteger != 0 && b.Info()&types.IsUnsigned == 0
}

func isInteger(t types.Type) bool {
	b, ok := t.Underlying().(*types.Basic)
	return ok && b.Info()&types.IsInteger != 0
}

func isBoolean(t types.Type) bool {
	b, ok := t.Underlying().(*types.Basic)
	return ok && b.Info()&types.IsBoolean != 0
}

func isFloat(t types.Type) bool {
	b, ok := t.Underlying().(*types.Basic)
	return ok && b.Info()&types.IsFloat != 0
}

func isString(t types.Type) bool {
	b, ok := t.Underlying().(*types.Basic)
	return ok && b.Info()&types.IsString != 0
}

// ---- debug printing ----

func valString(v Value) string {
	switch x := v.(type) {
	case nil:
		return "<nil-value>"
	case *Term:
		return x.String()
	case Float:
		return fmt.Sprint(float64(x))
	case Str:
		if x.B != nil {
			return fmt.Sprintf("symstr[%d]", len(x.B))
		}
		return fmt.Sprintf("%q", x.S)
	case Ptr:
		if x.IsNil() {
			return "nil"
		}
		return fmt.Sprintf("&%d.%d%v", x.Obj.G, x.Obj.N, x.Path)
	case Tuple:
		var s []string
		for _, y := range x {
			s = append(s, valString(y))
		}
		return "{" + strings.Join(s, ", ") + "}"
	case Slice:
		return fmt.Sprintf("slice(%s,%d,%d,%d)", valString(x.Base), x.Off, x.Len, x.Cap)
	case Iface:
		if x.T == nil {
			return "nil-iface"
		}
		return fmt.Sprintf("iface(%v: %s)", x.T, valString(x.V))
	case *Closure:
		if x == nil {
			return "nil-func"
		}
		if x.Fn != nil {
			return "func " + x.Fn.String()
		}
		return "builtin " + x.Builtin
	case MapRef:
		return fmt.Sprintf("map@%d.%d", x.Obj.G, x.Obj.N)
	case ChanRef:
		return fmt.Sprintf("chan@%d.%d", x.Obj.G, x.Obj.N)
	case Opaque:
		return fmt.Sprintf("opaque(%s#%d)", x.Tag, x.ID)
	case *SymBuf:
		return "symbuf"
	}
	return fmt.Sprintf("%T", v)
}
