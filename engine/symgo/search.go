package symgo

import (
	"fmt"
	"sort"
	"strings"
	"sync"
	"sync/atomic"
	"time"
)

type Worker struct {
	e           *Engine
	id          int
	solver      *SolverSet
	lastUnknown bool
	unsatCache  map[[2]uint64]bool
	onStack     map[[2]uint64]int
	stackHit    bool
}

func (w *Worker) checkWith(st *State, lit *Term) SatResult {
	ok, m := w.feasible(st, lit)
	if !ok {
		return Unsat
	}
	if m == nil {
		return Unknown
	}
	return Sat
}

// feasible decides whether pc ∧ lit is satisfiable. It first evaluates lit under the
// state's current model of pc (no solver call); otherwise it asks the solver and returns
// the new model. (true, nil) means the solver could not decide (treated as feasible).
func (w *Worker) feasible(st *State, lit *Term) (bool, *Model) {
	w.lastUnknown = false
	if lit.IsTrue() {
		return true, st.model
	}
	if lit.IsFalse() {
		return false, nil
	}
	if st.model != nil && st.model.Eval(lit) == 1 {
		atomic.AddInt64(&w.e.res.ModelHits, 1)
		return true, st.model
	}
	// syntactic shortcut: the path condition already contains the literal's negation (a branch
	// condition met a second time, e.g. the same input decoded twice)
	if len(st.pc) > 0 {
		n1, n2 := Not(lit).Hash()
		for _, p := range st.pc {
			if a, b := p.Hash(); a == n1 && b == n2 {
				atomic.AddInt64(&w.e.res.ModelHits, 1)
				return false, nil
			}
		}
	}
	q := make([]*Term, 0, len(st.pc)+1)
	q = append(q, st.pc...)
	q = append(q, lit)
	key := queryKey(q)
	if r, ok := w.unsatCache[key]; ok && r {
		w.solver.Primary.Stats.CacheHit++
		return false, nil
	}
	leaves := CollectLeaves(q)
	r, vals, err := w.solver.CheckModelDiff(q, leaves)
	if err != nil {
		w.e.res.noteInconclusive("solver error: " + err.Error())
		w.lastUnknown = true
		return true, nil
	}
	switch r {
	case Unsat:
		w.unsatCache[key] = true
		return false, nil
	case Unknown:
		w.lastUnknown = true
		atomic.AddInt64(&w.e.res.UnknownBranches, 1)
		return true, nil
	}
	return true, BuildModel(leaves, vals)
}

type item struct {
	st    *State
	cur   uint32 // goroutine to run first (0 none)
	sleep []Trans
}

type visitedEntry struct {
	sleep []transKey
}

type Results struct {
	mu sync.Mutex

	Failures        []*Failure
	KnownHits       map[string][]*Failure
	Inconclusive    []string
	Reach           map[string]int
	Samples         []map[string]interface{}
	PathsFinished   int64
	PathsPruned     int64
	PathsBlocked    int64 // paths ending with goroutines blocked but main done (informational)
	SleepBlocked    int64
	CacheHits       int64
	States          int64
	Transitions     int64
	Forks           int64
	Instrs          int64
	UnknownBranches int64
	ModelHits       int64
	PORReduced      int64
	PORProviso      int64
	MaxDepth        int64
	Funcs           map[string]bool
	stop            int32
	failKeys        map[string]bool
	Observations    []string
	ObsPaths        [][]string
	// KnownIDs: per open known finding, how many failures with which "<kind> <id>" were
	// attributed to it
	KnownIDs map[string]map[string]int
}

func (r *Results) noteInconclusive(msg string) {
	r.mu.Lock()
	defer r.mu.Unlock()
	if len(r.Inconclusive) < 50 {
		for _, m := range r.Inconclusive {
			if m == msg {
				return
			}
		}
		r.Inconclusive = append(r.Inconclusive, msg)
	}
}

func (r *Results) reach(label string) {
	r.mu.Lock()
	r.Reach[label]++
	r.mu.Unlock()
}

func (e *Engine) blockedSig(st *State) []string {
	var out []string
	for _, g := range st.gs {
		if g.Status == gParked && g.Pending != nil && len(g.Frames) > 0 {
			// innermost repository/overlay function on the stack
			fn := g.Frames[len(g.Frames)-1].Fn.String()
			inRepo := false
			for i := len(g.Frames) - 1; i >= 0; i-- {
				fi := e.info(g.Frames[i].Fn)
				if fi.repo || fi.overlay {
					fn = g.Frames[i].Fn.String()
					inRepo = fi.repo
					break
				}
			}
			if g.IsMain && !inRepo {
				// the harness main goroutine counts only when it is parked inside repository
				// code (e.g. a harness that plays a node through the real routeResponse)
				continue
			}
			d := fn + ":" + opNamesK[g.Pending.Kind] + e.watchSuffix(st, g)
			// the repository callers of that function (innermost first): a finding's signature
			// may name any of them, so that it survives the extraction of a helper
			ncallers := 0
			seenInner := false
			for i := len(g.Frames) - 1; i >= 0 && ncallers < 4; i-- {
				fi := e.info(g.Frames[i].Fn)
				if !fi.repo {
					continue
				}
				if !seenInner {
					seenInner = true
					if g.Frames[i].Fn.String() == fn {
						continue
					}
				}
				d += " <- " + g.Frames[i].Fn.String()
				ncallers++
			}
			out = append(out, d)
		}
	}
	sort.Strings(out)
	return out
}

// watchSuffix renders the watched words (vWatch) that live in the receiver object of the
// innermost repository method of a parked goroutine: "[name=value]...".
func (e *Engine) watchSuffix(st *State, g *G) string {
	if len(st.watches) == 0 {
		return ""
	}
	for i := len(g.Frames) - 1; i >= 0; i-- {
		fr := g.Frames[i]
		if !fr.Info.repo {
			continue
		}
		if fr.Fn.Signature.Recv() == nil || len(fr.Fn.Params) == 0 {
			return ""
		}
		idx, ok := fr.Info.idx[fr.Fn.Params[0]]
		if !ok || idx >= len(fr.Env) {
			return ""
		}
		recv, ok := fr.Env[idx].(Ptr)
		if !ok {
			return ""
		}
		s := ""
		for _, w := range st.watches {
			if w.p.Obj == recv.Obj {
				val := "?"
				if t, ok := st.load(w.p).(*Term); ok && t.IsConst() {
					val = fmt.Sprint(t.K)
				}
				s += "[" + w.name + "=" + val + "]"
			}
		}
		return s
	}
	return ""
}

func (e *Engine) recordFailure(st *State, f *Failure) {
	f.Decs = st.decisionList()
	f.Gids = e.gidTable()
	f.Blocked = e.blockedSig(st)
	for k := range st.known {
		f.Known = append(f.Known, k)
	}
	sort.Strings(f.Known)
	r := e.res
	r.mu.Lock()
	defer r.mu.Unlock()
	// attribute to open known findings if the path is inside such a region
	var open []string
	for _, k := range f.Known {
		if e.cfg.OpenFindings[k] {
			open = append(open, k)
		}
	}
	// ... or if the failure carries the signature of one
	if len(open) == 0 {
		for _, ks := range e.cfg.KnownSigs {
			if len(ks.Kinds) > 0 && !ks.Kinds[f.Kind] {
				continue
			}
			ok := true
			if len(ks.IDs) > 0 {
				ok = false
				for _, id := range ks.IDs {
					if strings.HasPrefix(f.ID, id) {
						ok = true
						break
					}
				}
			}
			for _, rq := range ks.Requires {
				if !st.known[rq] {
					ok = false
				}
			}
			for _, rx := range ks.Blocked {
				m := false
				for _, b := range f.Blocked {
					if rx.MatchString(b) {
						m = true
						break
					}
				}
				if !m {
					ok = false
					break
				}
			}
			if ok && ks.Detail != nil && !ks.Detail.MatchString(f.Detail) {
				ok = false
			}
			if ok && (len(ks.Blocked) > 0 || ks.Detail != nil) {
				open = append(open, ks.ID)
				break
			}
		}
	}
	if len(open) > 0 {
		for _, k := range open {
			if r.KnownIDs[k] == nil {
				r.KnownIDs[k] = map[string]int{}
			}
			r.KnownIDs[k][f.Kind+" "+f.ID]++
			if len(r.KnownHits[k]) < 3 {
				r.KnownHits[k] = append(r.KnownHits[k], f)
			} else {
				r.KnownHits[k] = append(r.KnownHits[k][:2], r.KnownHits[k][2])
			}
		}
		return
	}
	key := f.Kind + "|" + f.ID + "|" + f.Pos + "|" + strings.Join(f.Known, ",") + "|" + strings.Join(f.Blocked, ",")
	if r.failKeys[key] {
		return
	}
	r.failKeys[key] = true
	r.Failures = append(r.Failures, f)
	if len(r.Failures) >= e.cfg.MaxFailures {
		atomic.StoreInt32(&r.stop, 1)
	}
}

// ---- pool ----

type pool struct {
	mu      sync.Mutex
	cond    *sync.Cond
	queue   []item
	active  int
	idle    int32
	done    bool
	nworker int
}

func (p *pool) push(it item) {
	p.mu.Lock()
	p.queue = append(p.queue, it)
	p.mu.Unlock()
	p.cond.Signal()
}

func (p *pool) pop() (item, bool) {
	p.mu.Lock()
	defer p.mu.Unlock()
	for {
		if len(p.queue) > 0 {
			it := p.queue[len(p.queue)-1]
			p.queue = p.queue[:len(p.queue)-1]
			p.active++
			return it, true
		}
		if p.active == 0 || p.done {
			p.done = true
			p.cond.Broadcast()
			return item{}, false
		}
		atomic.AddInt32(&p.idle, 1)
		p.cond.Wait()
		atomic.AddInt32(&p.idle, -1)
	}
}

func (p *pool) finish() {
	p.mu.Lock()
	p.active--
	if p.active == 0 && len(p.queue) == 0 {
		p.done = true
		p.cond.Broadcast()
	}
	p.mu.Unlock()
}

// Explore runs the search from the root state.
func (e *Engine) Explore(root *State) error {
	nw := e.cfg.Workers
	if nw < 1 {
		nw = 1
	}
	p := &pool{nworker: nw}
	p.cond = sync.NewCond(&p.mu)
	e.pool = p
	p.push(item{st: root, cur: 1})
	var wg sync.WaitGroup
	errs := make([]error, nw)
	for i := 0; i < nw; i++ {
		ss, err := NewSolverSet(e.cfg.Solver, e.cfg.DiffSolvers, e.cfg.SolverTimeoutMs)
		if err != nil {
			return err
		}
		w := &Worker{e: e, id: i, solver: ss, unsatCache: map[[2]uint64]bool{}, onStack: map[[2]uint64]int{}}
		e.workers = append(e.workers, w)
		wg.Add(1)
		go func(i int, w *Worker) {
			defer wg.Done()
			defer func() {
				if r := recover(); r != nil {
					errs[i] = fmt.Errorf("worker %d crashed: %v", i, r)
					e.res.noteInconclusive(fmt.Sprintf("engine crash: %v", r))
					atomic.StoreInt32(&e.res.stop, 1)
					p.mu.Lock()
					p.done = true
					p.cond.Broadcast()
					p.mu.Unlock()
					if e.cfg.Debug {
						panic(r)
					}
				}
			}()
			for {
				it, ok := p.pop()
				if !ok {
					return
				}
				w.explore(it, 0)
				p.finish()
			}
		}(i, w)
	}
	wg.Wait()
	for _, w := range e.workers {
		w.solver.Close()
	}
	for _, err := range errs {
		if err != nil {
			return err
		}
	}
	return nil
}

func (e *Engine) stopped() bool {
	if atomic.LoadInt32(&e.res.stop) != 0 {
		return true
	}
	if !e.deadline.IsZero() && time.Now().After(e.deadline) {
		e.res.noteInconclusive("wall-clock budget exceeded before the exploration finished")
		atomic.StoreInt32(&e.res.stop, 1)
		return true
	}
	return false
}

func (w *Worker) explore(it item, depth int) {
	e := w.e
	st := it.st
	if e.stopped() {
		return
	}
	// Phase A: run invisible work
	cur := it.cur
	for {
		var g *G
		if cur != 0 {
			g = st.findG(cur)
			if g != nil && g.Status != gRunnable {
				g = nil
			}
			cur = 0
		}
		if g == nil {
			for _, h := range st.gs {
				if h.Status == gRunnable {
					g = h
					break
				}
			}
		}
		if g == nil {
			break
		}
		before := st.nInstr
		ev := e.run(w, st, g)
		atomic.AddInt64(&e.res.Instrs, int64(st.nInstr-before))
		switch ev.Kind {
		case evVisible, evExit:
			continue
		case evMainDone:
			w.finishPath(st)
			return
		case evFork:
			atomic.AddInt64(&e.res.Forks, 1)
			f := ev.Fork
			for k, alt := range f.alts {
				var child *State
				if k == len(f.alts)-1 {
					child = st
				} else {
					child = st.Clone()
				}
				child.addPC(f.lits[alt])
				if f.models != nil {
					child.model = f.models[alt]
				} else {
					child.model = nil
				}
				child.forced = alt
				if f.vals != nil {
					child.forcedV = f.vals[alt]
					child.hasForcedV = true
				}
				child.addDecision(f.kind, f.desc, alt)
				ci := item{st: child, cur: g.ID, sleep: it.sleep}
				if k < len(f.alts)-1 && atomic.LoadInt32(&e.pool.idle) > 0 {
					e.pool.push(ci)
					continue
				}
				w.explore(ci, depth+1)
				if e.stopped() {
					return
				}
			}
			return
		case evFail:
			if st.undecided {
				// confirm that the path itself is feasible before reporting
				ss := w.solver
				r, err := ss.Check(st.pc)
				if err != nil || r == Unknown {
					e.res.noteInconclusive("failure " + ev.Fail.ID + " on a path whose feasibility the solver could not decide")
					return
				}
				if r == Unsat {
					atomic.AddInt64(&e.res.PathsPruned, 1)
					return
				}
			}
			e.recordFailure(st, ev.Fail)
			return
		case evAbort:
			if ev.Ab.kind == "bound" {
				e.res.noteInconclusive("BOUND-EXCEEDED: " + ev.Ab.msg + " at " + e.posStr(ev.Ab.pos))
			} else {
				e.res.noteInconclusive(strings.ToUpper(ev.Ab.kind) + ": " + ev.Ab.msg + " at " + e.posStr(ev.Ab.pos))
			}
			return
		case evPruned:
			atomic.AddInt64(&e.res.PathsPruned, 1)
			return
		}
	}
	// Phase B: scheduling point
	st.nTrans++
	if st.nTrans > e.cfg.MaxTransPerPath {
		e.res.noteInconclusive(fmt.Sprintf("BOUND-EXCEEDED: more than %d transitions on a path", e.cfg.MaxTransPerPath))
		return
	}
	if int64(depth) > atomic.LoadInt64(&e.res.MaxDepth) {
		atomic.StoreInt64(&e.res.MaxDepth, int64(depth))
	}
	trans := e.enabledTransitions(st)
	if len(trans) == 0 {
		e.recordFailure(st, e.deadlockFailure(st))
		return
	}
	sleep := it.sleep
	// fast path: a single live goroutine with a single enabled transition is not a
	// scheduling decision (sequential phases of a harness): no state bookkeeping needed
	if len(trans) == 1 {
		live := 0
		for _, g := range st.gs {
			if g.Status != gDone {
				live++
			}
		}
		if live == 1 {
			t := trans[0]
			g := st.findG(t.G)
			g.Granted = &Grant{Case: t.Case, Partner: t.Partner, PCase: t.PCase}
			g.Status = gRunnable
			atomic.AddInt64(&e.res.Transitions, 1)
			w.explore(item{st: st, cur: t.G, sleep: nil}, depth+1)
			return
		}
	}
	ns := atomic.AddInt64(&e.res.States, 1)
	if ns > e.cfg.MaxStates {
		e.res.noteInconclusive(fmt.Sprintf("BOUND-EXCEEDED: more than %d scheduling states", e.cfg.MaxStates))
		atomic.StoreInt32(&e.res.stop, 1)
		return
	}
	var h [2]uint64
	if e.cfg.Stateful {
		h = e.hashState(st, e.live)
		if w.onStack[h] > 0 {
			w.stackHit = true
		}
		sk := make([]transKey, len(sleep))
		for i := range sleep {
			sk[i] = sleep[i].key()
		}
		sh := &e.visited[h[0]%uint64(len(e.visited))]
		sh.mu.Lock()
		old, seen := sh.m[h]
		if seen {
			if subset(old.sleep, sk) {
				sh.mu.Unlock()
				atomic.AddInt64(&e.res.CacheHits, 1)
				return
			}
			// re-explore with the intersection
			var inter []Trans
			for _, t := range sleep {
				if containsKey(old.sleep, t.key()) {
					inter = append(inter, t)
				}
			}
			sleep = inter
			sk = sk[:0]
			for i := range sleep {
				sk = append(sk, sleep[i].key())
			}
		}
		sh.m[h] = visitedEntry{sleep: sk}
		sh.mu.Unlock()
	}
	full := trans
	reduced := false
	if !e.cfg.NoPOR && len(trans) > 1 {
		trans = e.persistentSet(st, trans)
		if len(trans) < len(full) {
			reduced = true
			atomic.AddInt64(&e.res.PORReduced, 1)
		}
	}
	if e.cfg.Stateful {
		w.onStack[h]++
		defer func() { w.onStack[h]-- }()
	}
	if reduced {
		saved := w.stackHit
		w.stackHit = false
		w.expand(st, it, trans, sleep, depth, true)
		hit := w.stackHit
		w.stackHit = saved || hit
		if hit && !e.stopped() {
			// cycle proviso: the reduced set closed a cycle; expand the rest as well
			var rest []Trans
			for i := range full {
				if !containsTrans(trans, &full[i]) {
					rest = append(rest, full[i])
				}
			}
			atomic.AddInt64(&e.res.PORProviso, 1)
			w.expand(st, it, rest, append(append([]Trans{}, sleep...), trans...), depth, false)
		}
		return
	}
	w.expand(st, it, trans, sleep, depth, false)
}

// expand explores the given transitions from st (sleep-set filtered).
func (w *Worker) expand(st *State, it item, trans []Trans, sleep []Trans, depth int, local bool) {
	keep := local // the caller needs st intact afterwards
	e := w.e
	var alts []Trans
	for _, t := range trans {
		if !e.cfg.NoSleep && containsTrans(sleep, &t) {
			continue
		}
		alts = append(alts, t)
	}
	if len(alts) == 0 {
		atomic.AddInt64(&e.res.SleepBlocked, 1)
		return
	}
	// order: canonical (by goroutine id, case, partner) so that runs are reproducible
	sort.SliceStable(alts, func(i, j int) bool {
		a, b := alts[i], alts[j]
		if a.G != b.G {
			return a.G < b.G
		}
		if a.Case != b.Case {
			return a.Case < b.Case
		}
		return a.Partner < b.Partner
	})
	if e.cfg.Seed != 0 && len(alts) > 1 {
		r := int(uint64(e.cfg.Seed) % uint64(len(alts)))
		alts = append(alts[r:], alts[:r]...)
	}
	for i := range alts {
		t := alts[i]
		var child *State
		if i == len(alts)-1 && !keep {
			child = st
		} else {
			child = st.Clone()
		}
		var csleep []Trans
		if !e.cfg.NoSleep {
			for k := range sleep {
				if independent(&sleep[k], &t) {
					csleep = append(csleep, sleep[k])
				}
			}
			for k := 0; k < i; k++ {
				if independent(&alts[k], &t) {
					csleep = append(csleep, alts[k])
				}
			}
		}
		g := child.findG(t.G)
		g.Granted = &Grant{Case: t.Case, Partner: t.Partner, PCase: t.PCase}
		g.Status = gRunnable
		child.addDecision("sched", e.transDesc(&t), i)
		child.dec.T = e.schedInfoOf(child, g, &t)
		atomic.AddInt64(&e.res.Transitions, 1)
		ci := item{st: child, cur: t.G, sleep: csleep}
		if !local && i < len(alts)-1 && atomic.LoadInt32(&e.pool.idle) > 0 {
			e.pool.push(ci)
		} else {
			w.explore(ci, depth+1)
		}
		if e.stopped() {
			return
		}
	}
}

func subset(a, b []transKey) bool {
	for _, x := range a {
		if !containsKey(b, x) {
			return false
		}
	}
	return true
}

func containsKey(s []transKey, k transKey) bool {
	for _, x := range s {
		if x == k {
			return true
		}
	}
	return false
}

func containsTrans(s []Trans, t *Trans) bool {
	k := t.key()
	for i := range s {
		if s[i].key() == k {
			return true
		}
	}
	return false
}

// schedInfoOf records the granted transition in structured form.
func (e *Engine) schedInfoOf(st *State, g *G, t *Trans) *schedInfo {
	si := &schedInfo{G: t.G, Kind: t.Kind, Pos: t.Pos, Case: t.Case, Partner: t.Partner, PCase: t.PCase}
	if t.Partner != 0 {
		if pg := st.findG(t.Partner); pg != nil && pg.Pending != nil {
			si.PartnerPos = pg.Pending.Pos
		}
	}
	for i, fr := range g.Frames {
		if fr.Info.stubfile || fr.Info.stubFor != "" {
			si.Stub = true
			if i > 0 {
				si.Caller = e.instrPos(g.Frames[i-1])
			}
			break
		}
	}
	return si
}

// SchedStep is one step of a failure's schedule in printable form (native replay).
type SchedStep struct {
	G       uint32 `json:"g"`
	Kind    string `json:"kind"`
	Site    string `json:"site"`
	Case    int    `json:"case"`
	Partner uint32 `json:"partner,omitempty"`
	PCase   int    `json:"pcase,omitempty"`
	PSite   string `json:"psite,omitempty"`
	Stub    bool   `json:"stub,omitempty"`
	Caller  string `json:"caller,omitempty"`
}

// ScheduleOf lists the scheduling decisions of a failure.
func (e *Engine) ScheduleOf(f *Failure) []SchedStep {
	var out []SchedStep
	for _, d := range f.Decs {
		if d.T == nil {
			continue
		}
		t := d.T
		st := SchedStep{G: t.G, Kind: opNamesK[t.Kind], Site: e.posStr(t.Pos), Case: t.Case, Partner: t.Partner, PCase: t.PCase, Stub: t.Stub}
		if t.Partner != 0 {
			st.PSite = e.posStr(t.PartnerPos)
		}
		if t.Stub && t.Caller.IsValid() {
			st.Caller = e.posStr(t.Caller)
		}
		out = append(out, st)
	}
	return out
}

func (e *Engine) transDesc(t *Trans) string {
	s := fmt.Sprintf("g%d %s@%s", t.G, opNamesK[t.Kind], e.posStr(t.Pos))
	if t.Case >= 0 {
		s += fmt.Sprintf(" case=%d", t.Case)
	}
	if t.Partner != 0 {
		s += fmt.Sprintf(" partner=g%d", t.Partner)
	}
	return s
}

func (e *Engine) deadlockFailure(st *State) *Failure {
	var blocked []string
	for _, g := range st.gs {
		if g.Status == gParked && g.Pending != nil {
			root := "?"
			if g.Root != nil {
				root = g.Root.String()
			}
			if g.IsMain {
				root = "harness main"
			}
			fn := "?"
			if len(g.Frames) > 0 {
				fn = g.Frames[len(g.Frames)-1].Fn.String()
			}
			blocked = append(blocked, fmt.Sprintf("g%d[%s] %s in %s at %s", g.ID, root, opNamesK[g.Pending.Kind], fn, e.posStr(g.Pending.Pos)))
		}
	}
	sort.Strings(blocked)
	return &Failure{Kind: "deadlock", ID: "deadlock", Detail: strings.Join(blocked, "; "), Stack: blocked}
}

func (w *Worker) finishPath(st *State) {
	e := w.e
	n := atomic.AddInt64(&e.res.PathsFinished, 1)
	if st.obs != nil {
		var tr []string
		for o := st.obs; o != nil; o = o.prev {
			tr = append(tr, o.s)
		}
		for i, j := 0, len(tr)-1; i < j; i, j = i+1, j-1 {
			tr[i], tr[j] = tr[j], tr[i]
		}
		e.res.mu.Lock()
		if len(e.res.ObsPaths) < 256 {
			e.res.ObsPaths = append(e.res.ObsPaths, tr)
		}
		e.res.mu.Unlock()
	}
	if n <= int64(e.cfg.SamplePaths) {
		m := w.modelFor(st, nil)
		s := map[string]interface{}{"outcome": "finished", "decisions": decStrings(st.decisionList(), 40), "model": m}
		e.res.mu.Lock()
		e.res.Samples = append(e.res.Samples, s)
		e.res.mu.Unlock()
	}
}

func decStrings(ds []*decision, max int) []string {
	var out []string
	for _, d := range ds {
		out = append(out, fmt.Sprintf("%s:%s=%d", d.Kind, d.Desc, d.Val))
	}
	if len(out) > max {
		head := out[:max/2]
		tail := out[len(out)-max/2:]
		out = append(append(append([]string{}, head...), fmt.Sprintf("... %d more ...", len(out)-max)), tail...)
	}
	return out
}

// modelFor returns a model of pc (plus extra) as a name -> value map, or nil.
func (w *Worker) modelFor(st *State, extra *Term) map[string]uint64 {
	q := append([]*Term{}, st.pc...)
	if extra != nil {
		q = append(q, extra)
	}
	leaves := CollectLeaves(q)
	if len(leaves) == 0 {
		return map[string]uint64{}
	}
	var m *Model
	if st.model != nil && (extra == nil || st.model.Eval(extra) == 1) {
		m = st.model
	} else {
		r, vals, err := w.solver.CheckModel(q, leaves)
		if err != nil || r != Sat {
			return nil
		}
		m = BuildModel(leaves, vals)
	}
	out := map[string]uint64{}
	for _, t := range leaves {
		switch t.Op {
		case OpSym:
			out[t.Name] = m.Eval(t)
		case OpUF:
			out[m.ufKey(t)] = m.Eval(t)
		case OpSelect:
			out[fmt.Sprintf("%s[%d]", t.Args[0].Name, m.Eval(t.Args[1]))] = m.Eval(t)
		}
	}
	return out
}
