package symgo

import (
	"fmt"
	"sort"
	"strings"
)

// Terms: immutable SMT terms with eager constant folding. No global table; a term is
// identified by its 128-bit structural hash so terms can be shared between workers.

type TOp uint8

const (
	OpConst TOp = iota // BV or Bool constant (k)
	OpSym              // named constant (name)
	OpNot
	OpAnd
	OpOr
	OpEq
	OpIte
	OpBVAdd
	OpBVSub
	OpBVMul
	OpBVUDiv
	OpBVURem
	OpBVSDiv
	OpBVSRem
	OpBVAnd
	OpBVOr
	OpBVXor
	OpBVShl
	OpBVLshr
	OpBVAshr
	OpBVNot
	OpBVNeg
	OpBVUlt
	OpBVUle
	OpBVSlt
	OpBVSle
	OpZext    // k = new width
	OpSext    // k = new width
	OpExtract // k = lo ; width gives size
	OpSelect  // array select: args[0] array sym, args[1] index(bv64) -> bv8
	OpUF      // uninterpreted function name(args) -> bv(w)
)

// W: 0 = Bool, 1..64 = bit-vector width, 255 = array BV64->BV8
const WArr = 255

type Term struct {
	Op   TOp
	W    uint8
	K    uint64
	Name string
	Args []*Term
	h1   uint64
	h2   uint64
}

func mix(a, b uint64) uint64 {
	x := a ^ (b + 0x9e3779b97f4a7c15 + (a << 6) + (a >> 2))
	x ^= x >> 33
	x *= 0xff51afd7ed558ccd
	x ^= x >> 33
	x *= 0xc4ceb9fe1a85ec53
	x ^= x >> 33
	return x
}

func hashStr(s string) uint64 {
	var h uint64 = 14695981039346656037
	for i := 0; i < len(s); i++ {
		h ^= uint64(s[i])
		h *= 1099511628211
	}
	return h
}

func (t *Term) Hash() (uint64, uint64) {
	if t.Op == OpConst {
		a := mix(uint64(t.W)+1, t.K)
		return a, mix(a, 0x1234567)
	}
	return t.h1, t.h2
}

func (t *Term) computeHash() {
	a := mix(uint64(t.Op)<<8|uint64(t.W), t.K)
	b := mix(t.K, uint64(t.Op)<<8|uint64(t.W)^0xabcdef)
	if t.Name != "" {
		s := hashStr(t.Name)
		a = mix(a, s)
		b = mix(b, s*31+7)
	}
	for _, x := range t.Args {
		x1, x2 := x.Hash()
		a = mix(a, x1)
		b = mix(b, x2)
	}
	t.h1, t.h2 = a, b
}

func mk(op TOp, w uint8, k uint64, args ...*Term) *Term {
	t := &Term{Op: op, W: w, K: k, Args: args}
	t.computeHash()
	return t
}

func SameTerm(a, b *Term) bool {
	if a == b {
		return true
	}
	if a.Op != b.Op || a.W != b.W {
		return false
	}
	a1, a2 := a.Hash()
	b1, b2 := b.Hash()
	return a1 == b1 && a2 == b2
}

var (
	TrueT  = &Term{Op: OpConst, W: 0, K: 1}
	FalseT = &Term{Op: OpConst, W: 0, K: 0}
)

func maskW(w uint8) uint64 {
	if w == 0 {
		return 1 // Bool
	}
	if w >= 64 {
		return ^uint64(0)
	}
	return (uint64(1) << w) - 1
}

func BoolC(b bool) *Term {
	if b {
		return TrueT
	}
	return FalseT
}

func BV(w uint8, v uint64) *Term { return &Term{Op: OpConst, W: w, K: v & maskW(w)} }

func Sym(name string, w uint8) *Term {
	t := &Term{Op: OpSym, W: w, Name: name}
	t.computeHash()
	return t
}

func (t *Term) IsConst() bool { return t.Op == OpConst }
func (t *Term) IsTrue() bool  { return t.Op == OpConst && t.W == 0 && t.K == 1 }
func (t *Term) IsFalse() bool { return t.Op == OpConst && t.W == 0 && t.K == 0 }

// signed value of a constant
func (t *Term) SVal() int64 {
	if t.W >= 64 {
		return int64(t.K)
	}
	if t.K&(uint64(1)<<(t.W-1)) != 0 {
		return int64(t.K | ^maskW(t.W))
	}
	return int64(t.K)
}

func Not(a *Term) *Term {
	if a.IsConst() {
		return BoolC(a.K == 0)
	}
	if a.Op == OpNot {
		return a.Args[0]
	}
	return mk(OpNot, 0, 0, a)
}

func And(a, b *Term) *Term {
	if a.IsConst() {
		if a.K == 0 {
			return FalseT
		}
		return b
	}
	if b.IsConst() {
		if b.K == 0 {
			return FalseT
		}
		return a
	}
	if SameTerm(a, b) {
		return a
	}
	return mk(OpAnd, 0, 0, a, b)
}

func Or(a, b *Term) *Term {
	if a.IsConst() {
		if a.K == 1 {
			return TrueT
		}
		return b
	}
	if b.IsConst() {
		if b.K == 1 {
			return TrueT
		}
		return a
	}
	if SameTerm(a, b) {
		return a
	}
	return mk(OpOr, 0, 0, a, b)
}

func Eq(a, b *Term) *Term {
	if a.W != b.W {
		panic(fmt.Sprintf("Eq width mismatch %d %d", a.W, b.W))
	}
	if a.IsConst() && b.IsConst() {
		return BoolC(a.K == b.K)
	}
	if SameTerm(a, b) {
		return TrueT
	}
	if a.W == 0 {
		if a.IsConst() {
			if a.K == 1 {
				return b
			}
			return Not(b)
		}
		if b.IsConst() {
			if b.K == 1 {
				return a
			}
			return Not(a)
		}
	}
	return mk(OpEq, 0, 0, a, b)
}

func Ite(c, a, b *Term) *Term {
	if c.IsConst() {
		if c.K == 1 {
			return a
		}
		return b
	}
	if SameTerm(a, b) {
		return a
	}
	if a.W == 0 && a.IsConst() && b.IsConst() {
		if a.K == 1 {
			return c
		}
		return Not(c)
	}
	return mk(OpIte, a.W, 0, c, a, b)
}

func BinBV(op TOp, a, b *Term) *Term {
	if a.W != b.W {
		panic(fmt.Sprintf("BinBV width mismatch op=%d %d %d", op, a.W, b.W))
	}
	w := a.W
	m := maskW(w)
	if a.IsConst() && b.IsConst() {
		x, y := a.K, b.K
		switch op {
		case OpBVAdd:
			return BV(w, x+y)
		case OpBVSub:
			return BV(w, x-y)
		case OpBVMul:
			return BV(w, x*y)
		case OpBVUDiv:
			if y == 0 {
				return BV(w, m)
			}
			return BV(w, x/y)
		case OpBVURem:
			if y == 0 {
				return BV(w, x)
			}
			return BV(w, x%y)
		case OpBVSDiv:
			sx, sy := a.SVal(), b.SVal()
			if sy == 0 {
				if sx < 0 {
					return BV(w, 1)
				}
				return BV(w, m)
			}
			if sy == -1 {
				return BV(w, uint64(-sx))
			}
			return BV(w, uint64(sx/sy))
		case OpBVSRem:
			sx, sy := a.SVal(), b.SVal()
			if sy == 0 {
				return BV(w, x)
			}
			if sy == -1 {
				return BV(w, 0)
			}
			return BV(w, uint64(sx%sy))
		case OpBVAnd:
			return BV(w, x&y)
		case OpBVOr:
			return BV(w, x|y)
		case OpBVXor:
			return BV(w, x^y)
		case OpBVShl:
			if y >= uint64(w) {
				return BV(w, 0)
			}
			return BV(w, x<<y)
		case OpBVLshr:
			if y >= uint64(w) {
				return BV(w, 0)
			}
			return BV(w, x>>y)
		case OpBVAshr:
			sx := a.SVal()
			if y >= uint64(w) {
				if sx < 0 {
					return BV(w, m)
				}
				return BV(w, 0)
			}
			return BV(w, uint64(sx>>y))
		}
	}
	// light simplifications
	switch op {
	case OpBVAdd, OpBVOr, OpBVXor:
		if a.IsConst() && a.K == 0 {
			return b
		}
		if b.IsConst() && b.K == 0 {
			return a
		}
	case OpBVSub, OpBVShl, OpBVLshr, OpBVAshr:
		if b.IsConst() && b.K == 0 {
			return a
		}
	case OpBVAnd:
		if a.IsConst() && a.K == m {
			return b
		}
		if b.IsConst() && b.K == m {
			return a
		}
		if (a.IsConst() && a.K == 0) || (b.IsConst() && b.K == 0) {
			return BV(w, 0)
		}
	case OpBVMul:
		if a.IsConst() && a.K == 1 {
			return b
		}
		if b.IsConst() && b.K == 1 {
			return a
		}
	}
	return mk(op, w, 0, a, b)
}

func CmpBV(op TOp, a, b *Term) *Term {
	if a.W != b.W {
		panic(fmt.Sprintf("CmpBV width mismatch %d %d", a.W, b.W))
	}
	if a.IsConst() && b.IsConst() {
		switch op {
		case OpBVUlt:
			return BoolC(a.K < b.K)
		case OpBVUle:
			return BoolC(a.K <= b.K)
		case OpBVSlt:
			return BoolC(a.SVal() < b.SVal())
		case OpBVSle:
			return BoolC(a.SVal() <= b.SVal())
		}
	}
	if SameTerm(a, b) {
		return BoolC(op == OpBVUle || op == OpBVSle)
	}
	return mk(op, 0, 0, a, b)
}

func BVNot(a *Term) *Term {
	if a.IsConst() {
		return BV(a.W, ^a.K)
	}
	return mk(OpBVNot, a.W, 0, a)
}

func BVNeg(a *Term) *Term {
	if a.IsConst() {
		return BV(a.W, -a.K)
	}
	return mk(OpBVNeg, a.W, 0, a)
}

func Zext(a *Term, w uint8) *Term {
	if w == a.W {
		return a
	}
	if w < a.W {
		return Extract(a, 0, w)
	}
	if a.IsConst() {
		return BV(w, a.K)
	}
	return mk(OpZext, w, 0, a)
}

func Sext(a *Term, w uint8) *Term {
	if w == a.W {
		return a
	}
	if w < a.W {
		return Extract(a, 0, w)
	}
	if a.IsConst() {
		return BV(w, uint64(a.SVal()))
	}
	return mk(OpSext, w, 0, a)
}

// Extract w bits starting at lo.
func Extract(a *Term, lo uint8, w uint8) *Term {
	if lo == 0 && w == a.W {
		return a
	}
	if a.IsConst() {
		return BV(w, a.K>>lo)
	}
	if lo == 0 && (a.Op == OpZext || a.Op == OpSext) && a.Args[0].W >= w {
		return Extract(a.Args[0], 0, w)
	}
	return mk(OpExtract, w, uint64(lo), a)
}

func Select(arr, idx *Term) *Term { return mk(OpSelect, 8, 0, arr, idx) }

func UF(name string, w uint8, args ...*Term) *Term {
	t := &Term{Op: OpUF, W: w, Name: name, Args: args}
	t.computeHash()
	return t
}

// ---------- printing ----------

func sortName(w uint8) string {
	switch {
	case w == 0:
		return "Bool"
	case w == WArr:
		return "(Array (_ BitVec 64) (_ BitVec 8))"
	}
	return fmt.Sprintf("(_ BitVec %d)", w)
}

var opNames = map[TOp]string{
	OpNot: "not", OpAnd: "and", OpOr: "or", OpEq: "=", OpIte: "ite",
	OpBVAdd: "bvadd", OpBVSub: "bvsub", OpBVMul: "bvmul", OpBVUDiv: "bvudiv", OpBVURem: "bvurem",
	OpBVSDiv: "bvsdiv", OpBVSRem: "bvsrem", OpBVAnd: "bvand", OpBVOr: "bvor", OpBVXor: "bvxor",
	OpBVShl: "bvshl", OpBVLshr: "bvlshr", OpBVAshr: "bvashr", OpBVNot: "bvnot", OpBVNeg: "bvneg",
	OpBVUlt: "bvult", OpBVUle: "bvule", OpBVSlt: "bvslt", OpBVSle: "bvsle", OpSelect: "select",
}

func smtSymName(n string) string { return "|" + strings.ReplaceAll(n, "|", "!") + "|" }

// Printer prints terms with sharing (one define-fun per shared inner node within a query).
type Printer struct {
	sb    *strings.Builder
	names map[[2]uint64]string
	n     int
	Syms  map[string]*Term // symbols/UFs encountered
}

func NewPrinter(sb *strings.Builder) *Printer {
	return &Printer{sb: sb, names: map[[2]uint64]string{}, Syms: map[string]*Term{}}
}

// Ref returns an expression string for t, emitting define-funs for inner nodes as needed.
func (p *Printer) Ref(t *Term) string {
	switch t.Op {
	case OpConst:
		if t.W == 0 {
			if t.K == 1 {
				return "true"
			}
			return "false"
		}
		return fmt.Sprintf("(_ bv%d %d)", t.K, t.W)
	case OpSym:
		p.Syms[t.Name] = t
		return smtSymName(t.Name)
	}
	h1, h2 := t.Hash()
	key := [2]uint64{h1, h2}
	if n, ok := p.names[key]; ok {
		return n
	}
	args := make([]string, len(t.Args))
	for i, a := range t.Args {
		args[i] = p.Ref(a)
	}
	var expr string
	switch t.Op {
	case OpZext:
		expr = fmt.Sprintf("((_ zero_extend %d) %s)", int(t.W)-int(t.Args[0].W), args[0])
	case OpSext:
		expr = fmt.Sprintf("((_ sign_extend %d) %s)", int(t.W)-int(t.Args[0].W), args[0])
	case OpExtract:
		expr = fmt.Sprintf("((_ extract %d %d) %s)", int(t.K)+int(t.W)-1, t.K, args[0])
	case OpUF:
		p.Syms["uf:"+t.Name] = t
		if len(args) == 0 {
			expr = smtSymName(t.Name)
		} else {
			expr = "(" + smtSymName(t.Name) + " " + strings.Join(args, " ") + ")"
		}
	default:
		expr = "(" + opNames[t.Op] + " " + strings.Join(args, " ") + ")"
	}
	p.n++
	name := fmt.Sprintf("t!%d", p.n)
	fmt.Fprintf(p.sb, "(define-fun %s () %s %s)\n", name, sortName(t.W), expr)
	p.names[key] = name
	return name
}

// String renders a term for humans (no sharing).
func (t *Term) String() string {
	switch t.Op {
	case OpConst:
		if t.W == 0 {
			if t.K == 1 {
				return "true"
			}
			return "false"
		}
		return fmt.Sprintf("%d:bv%d", t.K, t.W)
	case OpSym:
		return t.Name
	case OpUF:
		s := make([]string, len(t.Args))
		for i, a := range t.Args {
			s[i] = a.String()
		}
		return t.Name + "(" + strings.Join(s, ",") + ")"
	}
	s := make([]string, len(t.Args))
	for i, a := range t.Args {
		s[i] = a.String()
	}
	n := opNames[t.Op]
	switch t.Op {
	case OpZext:
		n = fmt.Sprintf("zext%d", t.W)
	case OpSext:
		n = fmt.Sprintf("sext%d", t.W)
	case OpExtract:
		n = fmt.Sprintf("extract[%d+%d]", t.K, t.W)
	}
	return "(" + n + " " + strings.Join(s, " ") + ")"
}

// CollectSyms returns the symbol names occurring in the terms (sorted).
func CollectSyms(ts []*Term) []*Term {
	seen := map[string]*Term{}
	var walk func(t *Term)
	visited := map[*Term]bool{}
	walk = func(t *Term) {
		if visited[t] {
			return
		}
		visited[t] = true
		if t.Op == OpSym {
			seen[t.Name] = t
		}
		for _, a := range t.Args {
			walk(a)
		}
	}
	for _, t := range ts {
		walk(t)
	}
	var names []string
	for n := range seen {
		names = append(names, n)
	}
	sort.Strings(names)
	out := make([]*Term, len(names))
	for i, n := range names {
		out[i] = seen[n]
	}
	return out
}

// CollectLeaves returns the symbols, UF applications and array selects occurring in ts.
func CollectLeaves(ts []*Term) []*Term {
	seen := map[[2]uint64]bool{}
	var out []*Term
	var walk func(t *Term)
	walk = func(t *Term) {
		if t.Op == OpConst {
			return
		}
		h1, h2 := t.Hash()
		k := [2]uint64{h1, h2}
		if seen[k] {
			return
		}
		seen[k] = true
		if (t.Op == OpSym && t.W != WArr) || t.Op == OpUF || t.Op == OpSelect {
			out = append(out, t)
		}
		for _, a := range t.Args {
			walk(a)
		}
	}
	for _, t := range ts {
		walk(t)
	}
	return out
}

// BuildModel assembles a Model from leaf terms and their values.
func BuildModel(leaves []*Term, vals []uint64) *Model {
	m := &Model{Vals: map[string]uint64{}, Arrs: map[string]map[uint64]uint8{}, ArrD: map[string]uint8{}, UFs: map[string]uint64{}}
	for i, t := range leaves {
		if t.Op == OpSym {
			m.Vals[t.Name] = vals[i]
		}
	}
	// second pass: applications (arguments evaluated under the symbol values; nested
	// applications are resolved in order of increasing depth because leaves are collected
	// parents-first, so iterate until stable)
	for pass := 0; pass < 4; pass++ {
		for i, t := range leaves {
			switch t.Op {
			case OpUF:
				m.UFs[m.ufKey(t)] = vals[i]
			case OpSelect:
				name := t.Args[0].Name
				if m.Arrs[name] == nil {
					m.Arrs[name] = map[uint64]uint8{}
				}
				m.Arrs[name][m.Eval(t.Args[1])] = uint8(vals[i])
			}
		}
	}
	return m
}

func (m *Model) ufKey(t *Term) string {
	key := t.Name + "("
	for i, a := range t.Args {
		if i > 0 {
			key += ","
		}
		key += fmt.Sprint(m.Eval(a))
	}
	return key + ")"
}

// EvalTerm evaluates t under a model (symbol name -> value). Arrays: model "name" -> via arr func.
type Model struct {
	Vals map[string]uint64
	Arrs map[string]map[uint64]uint8 // array name -> sparse contents
	ArrD map[string]uint8            // default
	UFs  map[string]uint64           // "name(args...)" -> value
}

func (m *Model) Eval(t *Term) uint64 {
	switch t.Op {
	case OpConst:
		return t.K
	case OpSym:
		return m.Vals[t.Name] & maskW(t.W)
	case OpNot:
		return 1 - m.Eval(t.Args[0])
	case OpAnd:
		if m.Eval(t.Args[0]) == 1 && m.Eval(t.Args[1]) == 1 {
			return 1
		}
		return 0
	case OpOr:
		if m.Eval(t.Args[0]) == 1 || m.Eval(t.Args[1]) == 1 {
			return 1
		}
		return 0
	case OpEq:
		if m.Eval(t.Args[0]) == m.Eval(t.Args[1]) {
			return 1
		}
		return 0
	case OpIte:
		if m.Eval(t.Args[0]) == 1 {
			return m.Eval(t.Args[1])
		}
		return m.Eval(t.Args[2])
	case OpBVNot:
		return ^m.Eval(t.Args[0]) & maskW(t.W)
	case OpBVNeg:
		return -m.Eval(t.Args[0]) & maskW(t.W)
	case OpZext:
		return m.Eval(t.Args[0])
	case OpSext:
		return BV(t.W, uint64(BV(t.Args[0].W, m.Eval(t.Args[0])).SVal())).K
	case OpExtract:
		return (m.Eval(t.Args[0]) >> t.K) & maskW(t.W)
	case OpSelect:
		idx := m.Eval(t.Args[1])
		name := t.Args[0].Name
		if a, ok := m.Arrs[name]; ok {
			if v, ok := a[idx]; ok {
				return uint64(v)
			}
		}
		return uint64(m.ArrD[name])
	case OpUF:
		return m.UFs[m.ufKey(t)] & maskW(t.W)
	case OpBVUlt, OpBVUle, OpBVSlt, OpBVSle:
		a := BV(t.Args[0].W, m.Eval(t.Args[0]))
		b := BV(t.Args[1].W, m.Eval(t.Args[1]))
		return CmpBV(t.Op, a, b).K
	default:
		a := BV(t.Args[0].W, m.Eval(t.Args[0]))
		b := BV(t.Args[1].W, m.Eval(t.Args[1]))
		return BinBV(t.Op, a, b).K
	}
}
