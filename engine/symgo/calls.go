package symgo

import (
	"fmt"
	"go/token"
	"go/types"

	"golang.org/x/tools/go/ssa"
)

// resolveCallee evaluates the callee and arguments of a call (call/defer/go).
func (e *Engine) resolveCallee(w *Worker, st *State, g *G, fr *Frame, cc *ssa.CallCommon) (*Closure, []Value) {
	args := make([]Value, 0, len(cc.Args)+1)
	if cc.IsInvoke() {
		recv := e.get(st, g, fr, cc.Value)
		if op, ok := recv.(Opaque); ok {
			// method call on an opaque value
			return &Closure{Builtin: "opaque-method:" + op.Tag + "." + cc.Method.Name()}, nil
		}
		iv := recv.(Iface)
		if iv.T == nil {
			e.rtPanic(st, g, fr, "invalid memory address or nil pointer dereference (method call on nil interface)")
		}
		fn := e.lookupMethod(iv.T, cc.Method)
		if fn == nil {
			unsupported(cc.Pos(), "no method %s on dynamic type %v", cc.Method.Name(), iv.T)
		}
		args = append(args, iv.V)
		for _, a := range cc.Args {
			args = append(args, e.get(st, g, fr, a))
		}
		return &Closure{Fn: fn}, args
	}
	for _, a := range cc.Args {
		args = append(args, e.get(st, g, fr, a))
	}
	switch v := cc.Value.(type) {
	case *ssa.Function:
		return &Closure{Fn: v}, args
	case *ssa.Builtin:
		return &Closure{Builtin: v.Name()}, args
	}
	c, _ := e.get(st, g, fr, cc.Value).(*Closure)
	return c, args
}

func (e *Engine) lookupMethod(t types.Type, m *types.Func) *ssa.Function {
	ms := e.prog.MethodSets.MethodSet(t)
	sel := ms.Lookup(m.Pkg(), m.Name())
	if sel == nil {
		return nil
	}
	return e.prog.MethodValue(sel)
}

func (e *Engine) call(w *Worker, st *State, g *G, fr *Frame, in *ssa.Call) {
	cc := &in.Call
	if b, ok := cc.Value.(*ssa.Builtin); ok && !cc.IsInvoke() {
		args := make([]Value, len(cc.Args))
		for i, a := range cc.Args {
			args[i] = e.get(st, g, fr, a)
		}
		e.callBuiltin(w, st, g, fr, b.Name(), args, in, in.Pos())
		return
	}
	c, args := e.resolveCallee(w, st, g, fr, cc)
	if c == nil {
		e.rtPanic(st, g, fr, "invalid memory address or nil pointer dereference (call of nil func)")
	}
	if c.Builtin != "" {
		if fr.Lenient || len(c.Builtin) > 14 && c.Builtin[:14] == "opaque-method:" {
			if fr.Lenient {
				e.set(fr, in, e.lenientResult(st, in.Type()))
				fr.PC++
				return
			}
			unsupported(in.Pos(), "method call on opaque value: %s", c.Builtin)
		}
		e.callBuiltin(w, st, g, fr, c.Builtin, args, in, in.Pos())
		return
	}
	fn := c.Fn
	if tgt := e.redirect(fn); tgt != nil {
		e.pushFrame(st, g, tgt, args, nil, fkCall)
		return
	}
	if intr := e.intrinsicFor(fn); intr != nil {
		intr(&icall{e: e, w: w, st: st, g: g, fr: fr, in: in, fn: fn, args: args})
		return
	}
	if len(fn.Blocks) == 0 {
		if fr.Lenient {
			e.set(fr, in, e.lenientResult(st, in.Type()))
			fr.PC++
			return
		}
		unsupported(in.Pos(), "call of external function without model: %s", fn.String())
	}
	if fr.Lenient && fn.Name() == "init" && fn.Signature.Recv() == nil && fn.Pkg != nil && fn.Pkg != fr.Fn.Pkg {
		// other packages' init: skipped in lenient mode
		fr.PC++
		return
	}
	if fr.Lenient && !e.lenientCallable(fn) {
		e.set(fr, in, e.lenientResult(st, in.Type()))
		fr.PC++
		return
	}
	e.pushFrame(st, g, fn, args, c.Bind, fkCall)
}

// lenientCallable: during lenient init only functions of the initialised packages and of a
// few pure helper packages are interpreted; everything else yields an opaque result.
func (e *Engine) lenientCallable(fn *ssa.Function) bool {
	p := e.info(fn).pkgPath
	for _, q := range e.cfg.InitPkgs {
		if p == q {
			return true
		}
	}
	switch p {
	case "errors", "google.golang.org/grpc/status", "google.golang.org/grpc/internal/status", "google.golang.org/grpc/codes":
		return true
	}
	return false
}

// lenientResult produces a havocked (opaque) result of the given type during lenient init.
func (e *Engine) lenientResult(st *State, t types.Type) Value {
	st.opaqueN++
	mk := func(t types.Type) Value {
		return Opaque{Tag: "lenient:" + types.TypeString(t, nil), ID: st.opaqueN}
	}
	if tu, ok := t.(*types.Tuple); ok {
		if tu.Len() == 0 {
			return nil
		}
		out := make(Tuple, tu.Len())
		for i := range out {
			out[i] = mk(tu.At(i).Type())
		}
		return out
	}
	return mk(t)
}

// icall is the context handed to an intrinsic.
type icall struct {
	e    *Engine
	w    *Worker
	st   *State
	g    *G
	fr   *Frame
	in   *ssa.Call // nil when detached (go/defer)
	fn   *ssa.Function
	args []Value
	kind frameKind
	// posOverride: position reported for a deferred intrinsic call (the defer statement)
	posOverride token.Pos
}

func (c *icall) ret(v Value) {
	if c.in != nil {
		c.e.set(c.fr, c.in, v)
		c.fr.PC++
	}
}

func (c *icall) pos() token.Pos {
	if c.in != nil {
		return c.in.Pos()
	}
	return token.NoPos
}

type intrinsicFn func(c *icall)

func (e *Engine) intrinsicFor(fn *ssa.Function) intrinsicFn {
	if in, ok := e.intrByFn[fn]; ok {
		return in
	}
	return nil
}

func (e *Engine) redirect(fn *ssa.Function) *ssa.Function {
	return e.stubByFn[fn]
}

// runIntrinsicDetached runs an intrinsic as the root of a new goroutine (go statement).
func (e *Engine) runIntrinsicDetached(w *Worker, st *State, g *G, fn *ssa.Function, in intrinsicFn, args []Value, kind frameKind) {
	if e.visibleIntr[fn] {
		unsupported(token.NoPos, "go statement on visible intrinsic %s", fn)
	}
	in(&icall{e: e, w: w, st: st, g: g, fn: fn, args: args, kind: kind})
}

// ---- builtins ----

func (e *Engine) callBuiltin(w *Worker, st *State, g *G, fr *Frame, name string, args []Value, in *ssa.Call, pos token.Pos) {
	ret := func(v Value) {
		if in != nil {
			e.set(fr, in, v)
			fr.PC++
		}
	}
	switch name {
	case "len":
		switch a := args[0].(type) {
		case Str:
			ret(BV(64, uint64(a.Len())))
		case Slice:
			ret(BV(64, uint64(a.Len)))
		case *SymBuf:
			ret(a.LenT)
		case Tuple:
			ret(BV(64, uint64(len(a))))
		case Ptr:
			n := in.Call.Args[0].Type().Underlying().(*types.Pointer).Elem().Underlying().(*types.Array).Len()
			ret(BV(64, uint64(n)))
		case MapRef:
			if m := st.mapObj(a); m != nil {
				ret(BV(64, uint64(len(m.Entries))))
			} else {
				ret(BV(64, 0))
			}
		case ChanRef:
			if c := st.chanObj(a); c != nil {
				// len(ch) observes shared state: treat as plain read
				ret(BV(64, uint64(len(c.Buf))))
			} else {
				ret(BV(64, 0))
			}
		default:
			unsupported(pos, "len of %T", args[0])
		}
	case "cap":
		switch a := args[0].(type) {
		case Slice:
			ret(BV(64, uint64(a.Cap)))
		case *SymBuf:
			ret(a.LenT)
		case Tuple:
			ret(BV(64, uint64(len(a))))
		case ChanRef:
			if c := st.chanObj(a); c != nil {
				ret(BV(64, uint64(c.Cap)))
			} else {
				ret(BV(64, 0))
			}
		default:
			unsupported(pos, "cap of %T", args[0])
		}
	case "append":
		ret(e.appendOp(w, st, g, fr, args[0], args[1], in))
	case "copy":
		dst, ok1 := args[0].(Slice)
		if !ok1 {
			unsupported(pos, "copy into %T", args[0])
		}
		var n int
		switch src := args[1].(type) {
		case Slice:
			n = dst.Len
			if src.Len < n {
				n = src.Len
			}
			tmp := make([]Value, n)
			for i := 0; i < n; i++ {
				tmp[i] = st.load(src.Base.Field(src.Off + i))
			}
			for i := 0; i < n; i++ {
				st.store(dst.Base.Field(dst.Off+i), tmp[i])
			}
		case Str:
			n = dst.Len
			if src.Len() < n {
				n = src.Len()
			}
			for i := 0; i < n; i++ {
				st.store(dst.Base.Field(dst.Off+i), src.Byte(i))
			}
		default:
			unsupported(pos, "copy from %T", args[1])
		}
		ret(BV(64, uint64(n)))
	case "delete":
		e.mapDelete(w, st, g, fr, args[0].(MapRef), args[1])
		ret(nil)
	case "close":
		e.closeOp(w, st, g, fr, args[0].(ChanRef), in, pos)
	case "panic":
		e.goPanic(st, g, args[0], "", pos)
		panic(rtPanicSignal{})
	case "recover":
		ret(e.recoverOp(st, g))
	case "print", "println":
		ret(nil)
	case "min", "max":
		acc := args[0]
		for _, a := range args[1:] {
			switch x := acc.(type) {
			case *Term:
				y := a.(*Term)
				var lt *Term
				if isSigned(in.Call.Args[0].Type()) {
					lt = CmpBV(OpBVSlt, x, y)
				} else {
					lt = CmpBV(OpBVUlt, x, y)
				}
				if name == "min" {
					acc = Ite(lt, x, y)
				} else {
					acc = Ite(lt, y, x)
				}
			case Float:
				y := a.(Float)
				if (name == "min") == (y < x) {
					acc = y
				}
			default:
				unsupported(pos, "%s on %T", name, acc)
			}
		}
		ret(acc)
	case "clear":
		switch a := args[0].(type) {
		case MapRef:
			if !a.Obj.IsNil() {
				st.setObj(a.Obj, &MapObj{})
			}
		default:
			unsupported(pos, "clear of %T", args[0])
		}
		ret(nil)
	case "ssa:wrapnilchk":
		p := args[0].(Ptr)
		if p.IsNil() {
			e.rtPanic(st, g, fr, "value method called using nil pointer")
		}
		ret(p)
	default:
		unsupported(pos, "builtin %s", name)
	}
}

func (e *Engine) recoverOp(st *State, g *G) Value {
	// recover() is effective when called directly by a deferred function of an unwinding frame
	if len(g.Frames) >= 2 {
		cur := g.Frames[len(g.Frames)-1]
		below := g.Frames[len(g.Frames)-2]
		if cur.Kind == fkDefer && below.Unwinding && below.pendingPanic != nil && !below.Recovered {
			p := below.pendingPanic
			below.Recovered = true
			below.pendingPanic = nil
			if iv, ok := p.Val.(Iface); ok {
				return iv
			}
			// runtime error: wrap as an error-like interface holding the message
			return Iface{T: types.Typ[types.String], V: p.Val}
		}
	}
	return Iface{}
}

// growCap mirrors runtime.growslice's capacity computation closely enough for aliasing
// purposes (amd64 size classes are not modelled; capacities may differ from the runtime
// for large slices, which the harnesses do not depend on).
func growCap(oldCap, needed int) int {
	newcap := oldCap
	doublecap := newcap + newcap
	if needed > doublecap {
		return needed
	}
	const threshold = 256
	if oldCap < threshold {
		if doublecap == 0 {
			return needed
		}
		return doublecap
	}
	for newcap < needed {
		newcap += (newcap + 3*threshold) >> 2
	}
	return newcap
}

func (e *Engine) appendOp(w *Worker, st *State, g *G, fr *Frame, a0, a1 Value, in *ssa.Call) Value {
	if sb, ok := a0.(*SymBuf); ok {
		return e.symBufAppend(w, st, g, fr, sb, a1)
	}
	if sb, ok := a1.(*SymBuf); ok {
		return e.symBufAppend(w, st, g, fr, e.toSymBuf(st, a0), sb)
	}
	dst := a0.(Slice)
	var src []Value
	switch s := a1.(type) {
	case Slice:
		src = make([]Value, s.Len)
		for i := 0; i < s.Len; i++ {
			e.raceAccess(st, g, fr, s.Base.Field(s.Off+i), false)
			src[i] = st.load(s.Base.Field(s.Off + i))
		}
	case Str:
		for _, b := range s.Bytes() {
			src = append(src, b)
		}
	default:
		unsupported(e.instrPos(fr), "append of %T", a1)
	}
	if len(src) == 0 {
		return dst
	}
	need := dst.Len + len(src)
	if need <= dst.Cap && !dst.Base.IsNil() {
		for i, v := range src {
			e.raceAccess(st, g, fr, dst.Base.Field(dst.Off+dst.Len+i), true)
			st.store(dst.Base.Field(dst.Off+dst.Len+i), v)
		}
		return Slice{Base: dst.Base, Off: dst.Off, Len: need, Cap: dst.Cap}
	}
	nc := growCap(dst.Cap, need)
	var et types.Type
	if in != nil {
		et = in.Type().Underlying().(*types.Slice).Elem()
	}
	arr := make(Tuple, nc)
	for i := 0; i < dst.Len; i++ {
		e.raceAccess(st, g, fr, dst.Base.Field(dst.Off+i), false)
		arr[i] = st.load(dst.Base.Field(dst.Off + i))
	}
	for i, v := range src {
		arr[dst.Len+i] = v
	}
	if nc > need {
		var z Value
		if et != nil {
			z = e.zero(et)
		} else {
			z = BV(8, 0)
		}
		for i := need; i < nc; i++ {
			arr[i] = z
		}
	}
	id := st.alloc(g, arr)
	return Slice{Base: Ptr{Obj: id}, Len: need, Cap: nc}
}

// ---- maps ----

// keyMatch returns the literal "k equals entry key".
func (e *Engine) keyMatch(st *State, g *G, fr *Frame, k, ek Value) *Term {
	return e.equal(st, g, fr, k, ek)
}

// findKey returns the index of the entry matching k (or -1), forking when symbolic.
func (e *Engine) findKey(w *Worker, st *State, g *G, fr *Frame, m *MapObj, k Value) int {
	if m == nil {
		return -1
	}
	lits := make([]*Term, len(m.Entries)+1)
	none := TrueT
	allConst := true
	for i, en := range m.Entries {
		l := e.keyMatch(st, g, fr, k, en.K)
		lits[i] = l
		if !l.IsConst() {
			allConst = false
		} else if l.IsTrue() {
			return i
		}
		none = And(none, Not(l))
	}
	if allConst {
		return -1
	}
	lits[len(m.Entries)] = none
	i := e.decide(w, st, "mapkey", e.posStr(e.instrPos(fr)), lits)
	// record the chosen literal is done by the search (fork) or implied
	if i == len(m.Entries) {
		return -1
	}
	return i
}

func (e *Engine) lookup(w *Worker, st *State, g *G, fr *Frame, in *ssa.Lookup) {
	x := e.get(st, g, fr, in.X)
	if s, ok := x.(Str); ok {
		i := e.boundsIndex(w, st, g, fr, e.get(st, g, fr, in.Index), s.Len())
		e.set(fr, in, s.Byte(i))
		fr.PC++
		return
	}
	mr := x.(MapRef)
	m := st.mapObj(mr)
	k := e.get(st, g, fr, in.Index)
	e.checkHashable(st, g, fr, k)
	i := e.findKey(w, st, g, fr, m, k)
	if !mr.Obj.IsNil() {
		e.raceAccess(st, g, fr, Ptr{Obj: mr.Obj}, false)
	}
	var v Value
	if i >= 0 {
		v = m.Entries[i].V
	} else {
		v = e.zero(in.X.Type().Underlying().(*types.Map).Elem())
	}
	if in.CommaOk {
		e.set(fr, in, Tuple{v, BoolC(i >= 0)})
	} else {
		e.set(fr, in, v)
	}
	fr.PC++
}

func (e *Engine) checkHashable(st *State, g *G, fr *Frame, k Value) {
	if iv, ok := k.(Iface); ok && iv.T != nil && !types.Comparable(iv.T) {
		msg := "runtime error: hash of unhashable type " + iv.T.String()
		e.goPanic(st, g, Str{S: msg}, msg, e.instrPos(fr))
		panic(rtPanicSignal{})
	}
}

func (e *Engine) mapUpdate(w *Worker, st *State, g *G, fr *Frame, in *ssa.MapUpdate) {
	mr := e.get(st, g, fr, in.Map).(MapRef)
	if mr.Obj.IsNil() {
		msg := "assignment to entry in nil map"
		e.goPanic(st, g, Str{S: msg}, msg, e.instrPos(fr))
		panic(rtPanicSignal{})
	}
	m := st.mapObj(mr)
	k := e.get(st, g, fr, in.Key)
	e.checkHashable(st, g, fr, k)
	v := e.get(st, g, fr, in.Value)
	i := e.findKey(w, st, g, fr, m, k)
	e.raceAccess(st, g, fr, Ptr{Obj: mr.Obj}, true)
	nm := &MapObj{Entries: make([]mapEntry, len(m.Entries), len(m.Entries)+1)}
	copy(nm.Entries, m.Entries)
	if i >= 0 {
		nm.Entries[i] = mapEntry{K: m.Entries[i].K, V: v}
	} else {
		nm.Entries = append(nm.Entries, mapEntry{K: k, V: v})
	}
	st.setObj(mr.Obj, nm)
	fr.PC++
}

func (e *Engine) mapDelete(w *Worker, st *State, g *G, fr *Frame, mr MapRef, k Value) {
	m := st.mapObj(mr)
	if m == nil {
		return
	}
	i := e.findKey(w, st, g, fr, m, k)
	e.raceAccess(st, g, fr, Ptr{Obj: mr.Obj}, true)
	if i < 0 {
		return
	}
	nm := &MapObj{Entries: make([]mapEntry, 0, len(m.Entries))}
	nm.Entries = append(nm.Entries, m.Entries[:i]...)
	nm.Entries = append(nm.Entries, m.Entries[i+1:]...)
	st.setObj(mr.Obj, nm)
}

// ---- range / next ----

// iterator state lives in the frame register of the Range instruction.
type rangeIter struct {
	IsStr bool
	S     Str
	Pos   int
	// map iteration: snapshot of keys in the chosen order
	Map  MapRef
	Keys []Value
}

func permutations(n int) [][]int {
	if n == 0 {
		return [][]int{{}}
	}
	var out [][]int
	var rec func(cur []int, used []bool)
	rec = func(cur []int, used []bool) {
		if len(cur) == n {
			out = append(out, append([]int{}, cur...))
			return
		}
		for i := 0; i < n; i++ {
			if !used[i] {
				used[i] = true
				rec(append(cur, i), used)
				used[i] = false
			}
		}
	}
	rec(nil, make([]bool, n))
	return out
}

func (e *Engine) rangeInit(w *Worker, st *State, g *G, fr *Frame, in *ssa.Range) {
	x := e.get(st, g, fr, in.X)
	switch a := x.(type) {
	case Str:
		e.set(fr, in, &rangeIter{IsStr: true, S: a})
	case MapRef:
		m := st.mapObj(a)
		it := &rangeIter{Map: a}
		if m != nil && len(m.Entries) > 0 {
			if !a.Obj.IsNil() {
				e.raceAccess(st, g, fr, Ptr{Obj: a.Obj}, false)
			}
			n := len(m.Entries)
			var order []int
			if n == 1 || !e.info(fr.Fn).repo {
				order = make([]int, n)
				for i := range order {
					order[i] = i
				}
			} else if n <= e.cfg.MapPermMax {
				perms := permutations(n)
				lits := make([]*Term, len(perms))
				for i := range lits {
					lits[i] = TrueT
				}
				order = perms[e.decide(w, st, "maporder", e.posStr(e.instrPos(fr)), lits)]
			} else {
				lits := make([]*Term, n)
				for i := range lits {
					lits[i] = TrueT
				}
				r := e.decide(w, st, "maprot", e.posStr(e.instrPos(fr)), lits)
				order = make([]int, n)
				for i := range order {
					order[i] = (i + r) % n
				}
			}
			for _, i := range order {
				it.Keys = append(it.Keys, m.Entries[i].K)
			}
		}
		e.set(fr, in, it)
	default:
		unsupported(in.Pos(), "range over %T", x)
	}
	fr.PC++
}

func (e *Engine) next(w *Worker, st *State, g *G, fr *Frame, in *ssa.Next) {
	it := e.get(st, g, fr, in.Iter).(*rangeIter)
	tt := in.Type().(*types.Tuple)
	if it.IsStr {
		if it.Pos >= it.S.Len() {
			e.set(fr, in, Tuple{FalseT, BV(64, 0), BV(32, 0)})
			fr.PC++
			return
		}
		if it.S.IsSym() {
			// symbolic strings are ranged bytewise (ASCII precondition asserted by constraint)
			b := it.S.B[it.Pos]
			st.addPC(CmpBV(OpBVUlt, b, BV(8, 0x80)))
			nit := *it
			nit.Pos++
			e.set(fr, in.Iter, &nit)
			e.set(fr, in, Tuple{TrueT, BV(64, uint64(it.Pos)), Zext(b, 32)})
			fr.PC++
			return
		}
		rest := it.S.S[it.Pos:]
		var r rune
		var sz int
		for i, c := range rest {
			if i == 0 {
				r = c
				sz = len(string(c))
				if c == 0xFFFD && (len(rest) < 3 || rest[:3] != "�") {
					sz = 1
				}
			}
			break
		}
		nit := *it
		nit.Pos += sz
		e.set(fr, in.Iter, &nit)
		e.set(fr, in, Tuple{TrueT, BV(64, uint64(it.Pos)), BV(32, uint64(r))})
		fr.PC++
		return
	}
	// map
	m := st.mapObj(it.Map)
	pos := it.Pos
	for pos < len(it.Keys) {
		// skip entries deleted during iteration
		k := it.Keys[pos]
		found := -1
		if m != nil {
			for i, en := range m.Entries {
				if l := e.keyMatch(st, g, fr, k, en.K); l.IsTrue() {
					found = i
					break
				}
			}
		}
		if found >= 0 {
			nit := *it
			nit.Pos = pos + 1
			e.set(fr, in.Iter, &nit)
			kv, vv := k, m.Entries[found].V
			_ = tt
			e.set(fr, in, Tuple{TrueT, kv, vv})
			fr.PC++
			return
		}
		pos++
	}
	kz := e.zeroOrNil(tt.At(1).Type())
	vz := e.zeroOrNil(tt.At(2).Type())
	e.set(fr, in, Tuple{FalseT, kz, vz})
	fr.PC++
}

// zeroOrNil: the unused components of a Next tuple have the invalid type.
func (e *Engine) zeroOrNil(t types.Type) Value {
	if b, ok := t.(*types.Basic); ok && b.Kind() == types.Invalid {
		return nil
	}
	return e.zero(t)
}

var _ = fmt.Sprint
