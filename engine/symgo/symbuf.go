package symgo

import (
	"fmt"

	"golang.org/x/tools/go/ssa"
)

// SymBuf is a []byte with symbolic contents and *symbolic length* (lazy buffer, DESIGN 3.2):
//
//	base    an SMT array BV64->BV8 plus a BV64 length
//	bytes   a concrete number of (possibly symbolic) bytes
//	concat  parts one after the other
//	slice   a window [off, off+len) of another buffer
//
// Reading index i yields an ite/select term; Go's bounds checks become branch conditions decided
// by the solver; lengths and offsets stay symbolic. cap(b) == len(b) (append always allocates),
// which is sound for code that does not rely on aliasing of the appended-to buffer.
type SymBuf struct {
	Kind  uint8 // 0 base, 1 bytes, 2 concat, 3 slice
	Arr   *Term
	LenT  *Term
	Bytes []*Term
	Parts []*SymBuf
	Src   *SymBuf
	Off   *Term
}

// SymBufElem is the address of one element of a SymBuf (result of IndexAddr).
type SymBufElem struct {
	Buf *SymBuf
	Idx *Term
}

func (b *SymBuf) hash(h *hasher) (uint64, uint64) {
	var a, c uint64 = 0x5b, 0x5c
	a = mix(a, uint64(b.Kind))
	if b.Arr != nil {
		x, y := b.Arr.Hash()
		a, c = mix(a, x), mix(c, y)
	}
	if b.LenT != nil {
		x, y := b.LenT.Hash()
		a, c = mix(a, x), mix(c, y)
	}
	if b.Off != nil {
		x, y := b.Off.Hash()
		a, c = mix(a, x), mix(c, y)
	}
	for _, t := range b.Bytes {
		x, y := t.Hash()
		a, c = mix(a, x), mix(c, y)
	}
	for _, p := range b.Parts {
		x, y := p.hash(h)
		a, c = mix(a, x), mix(c, y)
	}
	if b.Src != nil {
		x, y := b.Src.hash(h)
		a, c = mix(a, x), mix(c, y)
	}
	return a, c
}

func symBytes(bs []*Term) *SymBuf {
	return &SymBuf{Kind: 1, Bytes: bs, LenT: BV(64, uint64(len(bs)))}
}

// read returns the byte at index i (no bounds check).
func (b *SymBuf) read(i *Term) *Term {
	switch b.Kind {
	case 0:
		return Select(b.Arr, i)
	case 1:
		if i.IsConst() {
			if i.K < uint64(len(b.Bytes)) {
				return b.Bytes[i.K]
			}
			return BV(8, 0)
		}
		r := BV(8, 0)
		for k := len(b.Bytes) - 1; k >= 0; k-- {
			r = Ite(Eq(i, BV(64, uint64(k))), b.Bytes[k], r)
		}
		return r
	case 2:
		// ite(i < L1, p1[i], ite(i < L1+L2, p2[i-L1], ...))
		var offs []*Term
		off := BV(64, 0)
		for _, p := range b.Parts {
			offs = append(offs, off)
			off = BinBV(OpBVAdd, off, p.LenT)
		}
		r := BV(8, 0)
		for k := len(b.Parts) - 1; k >= 0; k-- {
			p := b.Parts[k]
			end := BinBV(OpBVAdd, offs[k], p.LenT)
			v := p.read(BinBV(OpBVSub, i, offs[k]))
			if k == len(b.Parts)-1 {
				r = v
			} else {
				r = Ite(CmpBV(OpBVUlt, i, end), v, r)
			}
		}
		return r
	case 3:
		return b.Src.read(BinBV(OpBVAdd, b.Off, i))
	}
	panic("symbuf kind")
}

func (e *Engine) toSymBuf(st *State, v Value) *SymBuf {
	switch x := v.(type) {
	case *SymBuf:
		return x
	case Slice:
		bs := make([]*Term, x.Len)
		for i := 0; i < x.Len; i++ {
			bs[i] = st.load(x.Base.Field(x.Off + i)).(*Term)
		}
		return symBytes(bs)
	case Str:
		return symBytes(x.Bytes())
	}
	panic(abort{kind: "unsupported", msg: fmt.Sprintf("conversion of %T to symbolic buffer", v)})
}

// boundsCond forks on a Go bounds check: ok is the in-range condition.
func (e *Engine) boundsCond(w *Worker, st *State, g *G, fr *Frame, ok *Term, what string) {
	if ok.IsTrue() {
		return
	}
	if ok.IsFalse() {
		e.rtPanic(st, g, fr, what+" out of range (symbolic buffer)")
	}
	if e.decide(w, st, "bounds", e.posStr(e.instrPos(fr)), []*Term{ok, Not(ok)}) == 1 {
		e.rtPanic(st, g, fr, what+" out of range (symbolic buffer)")
	}
}

func (e *Engine) symBufIndexAddr(w *Worker, st *State, g *G, fr *Frame, b *SymBuf, idx *Term) Value {
	// 0 <= idx < len (idx is a signed int)
	ok := And(CmpBV(OpBVSle, BV(64, 0), idx), CmpBV(OpBVSlt, idx, b.LenT))
	e.boundsCond(w, st, g, fr, ok, "index")
	return SymBufElem{Buf: b, Idx: idx}
}

// entails reports whether the path condition implies t == u (a solver query without arrays
// in the usual case: lengths and offsets are pure bit-vector terms).
func (e *Engine) entails(w *Worker, st *State, t, u *Term) bool {
	eq := Eq(t, u)
	if eq.IsTrue() {
		return true
	}
	if eq.IsFalse() {
		return false
	}
	if st.model != nil && st.model.Eval(eq) != 1 {
		return false // the current model of pc is a counterexample
	}
	ok, _ := w.feasible(st, Not(eq))
	return !ok
}

func (e *Engine) symBufSlice(w *Worker, st *State, g *G, fr *Frame, b *SymBuf, in *ssa.Slice) Value {
	lo := BV(64, 0)
	hi := b.LenT
	if in.Low != nil {
		lo = e.get(st, g, fr, in.Low).(*Term)
	}
	if in.High != nil {
		hi = e.get(st, g, fr, in.High).(*Term)
	}
	if in.Max != nil {
		unsupported(in.Pos(), "full slice expression on symbolic buffer")
	}
	ok := And(CmpBV(OpBVSle, BV(64, 0), lo), And(CmpBV(OpBVSle, lo, hi), CmpBV(OpBVSle, hi, b.LenT)))
	e.boundsCond(w, st, g, fr, ok, "slice bounds")
	n := BinBV(OpBVSub, hi, lo)
	if lo.IsConst() && lo.K == 0 && SameTerm(hi, b.LenT) {
		return b
	}
	// structural alignment: if the window provably starts and ends at part boundaries of a
	// concatenation, the result is the exact sub-concatenation (so that later comparisons with
	// the original parts are syntactic). The boundary facts are discharged by the solver.
	if b.Kind == 2 {
		parts := b.Parts
		start := -1
		sum := BV(64, 0)
		for k := 0; k <= len(parts); k++ {
			if e.entails(w, st, lo, sum) {
				start = k
				break
			}
			if k < len(parts) {
				sum = BinBV(OpBVAdd, sum, parts[k].LenT)
			}
		}
		if start >= 0 {
			acc := BV(64, 0)
			for k := start; k <= len(parts); k++ {
				if e.entails(w, st, n, acc) {
					sub := parts[start:k]
					switch len(sub) {
					case 0:
						return symBytes(nil)
					case 1:
						return sub[0]
					}
					return &SymBuf{Kind: 2, Parts: append([]*SymBuf{}, sub...), LenT: acc}
				}
				if k < len(parts) {
					acc = BinBV(OpBVAdd, acc, parts[k].LenT)
				}
			}
			// aligned start only: drop the leading parts
			if start > 0 {
				rest := parts[start:]
				ln := BV(64, 0)
				for _, p := range rest {
					ln = BinBV(OpBVAdd, ln, p.LenT)
				}
				var src *SymBuf
				if len(rest) == 1 {
					src = rest[0]
				} else {
					src = &SymBuf{Kind: 2, Parts: append([]*SymBuf{}, rest...), LenT: ln}
				}
				return &SymBuf{Kind: 3, Src: src, Off: BV(64, 0), LenT: n}
			}
		}
	}
	if b.Kind == 3 {
		nb := &SymBuf{Kind: 3, Src: b.Src, Off: BinBV(OpBVAdd, b.Off, lo), LenT: n}
		// a window of a window may now align with the underlying concatenation
		if b.Src.Kind == 2 {
			if r := e.alignWindow(w, st, nb); r != nil {
				return r
			}
		}
		return nb
	}
	return &SymBuf{Kind: 3, Src: b, Off: lo, LenT: n}
}

// alignWindow tries to express a window over a concatenation as an exact sub-concatenation.
func (e *Engine) alignWindow(w *Worker, st *State, nb *SymBuf) *SymBuf {
	parts := nb.Src.Parts
	sum := BV(64, 0)
	for k := 0; k <= len(parts); k++ {
		if e.entails(w, st, nb.Off, sum) {
			acc := BV(64, 0)
			for j := k; j <= len(parts); j++ {
				if e.entails(w, st, nb.LenT, acc) {
					sub := parts[k:j]
					switch len(sub) {
					case 0:
						return symBytes(nil)
					case 1:
						return sub[0]
					}
					return &SymBuf{Kind: 2, Parts: append([]*SymBuf{}, sub...), LenT: acc}
				}
				if j < len(parts) {
					acc = BinBV(OpBVAdd, acc, parts[j].LenT)
				}
			}
			return nil
		}
		if k < len(parts) {
			sum = BinBV(OpBVAdd, sum, parts[k].LenT)
		}
	}
	return nil
}

func (e *Engine) symBufAppend(w *Worker, st *State, g *G, fr *Frame, b *SymBuf, x Value) Value {
	if b == nil {
		b = symBytes(nil)
	}
	add := e.toSymBuf(st, x)
	// merge adjacent concrete-length byte runs
	if b.Kind == 1 && add.Kind == 1 {
		return symBytes(append(append([]*Term{}, b.Bytes...), add.Bytes...))
	}
	var parts []*SymBuf
	if b.Kind == 2 {
		parts = append(parts, b.Parts...)
	} else if !(b.Kind == 1 && len(b.Bytes) == 0) {
		parts = append(parts, b)
	}
	if add.Kind == 1 && len(parts) > 0 && parts[len(parts)-1].Kind == 1 {
		last := parts[len(parts)-1]
		parts[len(parts)-1] = symBytes(append(append([]*Term{}, last.Bytes...), add.Bytes...))
	} else if add.Kind == 2 {
		parts = append(parts, add.Parts...)
	} else if !(add.Kind == 1 && len(add.Bytes) == 0) {
		parts = append(parts, add)
	}
	if len(parts) == 1 {
		return parts[0]
	}
	ln := BV(64, 0)
	for _, p := range parts {
		ln = BinBV(OpBVAdd, ln, p.LenT)
	}
	return &SymBuf{Kind: 2, Parts: parts, LenT: ln}
}

// vBytes(name) []byte: a fresh symbolic buffer with symbolic length (0 <= len < 2^31).
func vBytes(c *icall) {
	name := c.strArg(0)
	c.g.SymN++
	arr := Sym(fmt.Sprintf("%s.arr#%d.%d", name, c.g.ID, c.g.SymN), WArr)
	ln := Sym(fmt.Sprintf("%s.len#%d.%d", name, c.g.ID, c.g.SymN), 64)
	c.st.addPC(CmpBV(OpBVUlt, ln, BV(64, 1<<31)))
	c.st.model = nil
	c.ret(&SymBuf{Kind: 0, Arr: arr, LenT: ln})
}

// vBytesEqual(a, b) bool: same length and same contents (decided with a fresh index).
func vBytesEqual(c *icall) {
	a := c.e.toSymBuf(c.st, c.args[0])
	b := c.e.toSymBuf(c.st, c.args[1])
	if a == b {
		c.ret(TrueT) // structurally the same buffer
		return
	}
	c.g.SymN++
	j := Sym(fmt.Sprintf("eqidx#%d.%d", c.g.ID, c.g.SymN), 64)
	// equal  <=>  len(a)==len(b) ∧ ∀j<len: a[j]==b[j]; with j fresh and unconstrained the
	// term below is valid iff the buffers are equal, so asserting it (vAssert) asks the
	// solver for a j that distinguishes them.
	same := And(Eq(a.LenT, b.LenT), Or(Not(CmpBV(OpBVUlt, j, a.LenT)), Eq(a.read(j), b.read(j))))
	c.ret(same)
}
