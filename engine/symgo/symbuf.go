package symgo

import (
	"golang.org/x/tools/go/ssa"
)

// SymBuf is a []byte with symbolic contents and symbolic length (lazy buffer).
// Implemented in lazybuf.go (placeholder until the codec harness lands).
type SymBuf struct {
	LenT *Term
}

func (b *SymBuf) hash(h *hasher) (uint64, uint64) { return 1, 1 }

func (e *Engine) symBufIndexAddr(w *Worker, st *State, g *G, fr *Frame, b *SymBuf, idx *Term) Value {
	unsupported(e.instrPos(fr), "symbuf index")
	return nil
}
func (e *Engine) symBufSlice(w *Worker, st *State, g *G, fr *Frame, b *SymBuf, in *ssa.Slice) Value {
	unsupported(e.instrPos(fr), "symbuf slice")
	return nil
}
func (e *Engine) symBufAppend(w *Worker, st *State, g *G, fr *Frame, b *SymBuf, x Value) Value {
	unsupported(e.instrPos(fr), "symbuf append")
	return nil
}
func (e *Engine) toSymBuf(st *State, v Value) *SymBuf { return nil }
func vBytes(c *icall)                                 { unsupported(c.pos(), "vBytes") }
func vBytesEqual(c *icall)                            { unsupported(c.pos(), "vBytesEqual") }
