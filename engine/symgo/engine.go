package symgo

import (
	"fmt"
	"go/ast"
	"go/token"
	"go/types"
	"os"
	"path/filepath"
	"regexp"
	"sort"
	"strings"
	"sync"
	"time"

	"golang.org/x/tools/go/packages"
	"golang.org/x/tools/go/ssa"
	"golang.org/x/tools/go/ssa/ssautil"
)

type Config struct {
	RepoDir    string
	Patterns   []string          // package patterns to load (relative to RepoDir)
	HarnessDir string            // directory with overlay sources: <HarnessDir>/<rel pkg dir>/*.go
	Overlay    map[string][]byte // computed: virtual path -> contents
	Tags       []string
	Entry      string // "<pkgpath>.<Func>"
	Args       []int64

	Workers         int
	Solver          string
	DiffSolvers     []string
	SolverTimeoutMs int
	MaxInstrPerPath int
	MaxTransPerPath int
	MaxStates       int64
	MaxFailures     int
	SamplePaths     int
	Stateful        bool
	NoSleep         bool
	Race            bool
	Seed            int64
	MapPermMax      int
	HarnessMapOrder bool
	WallBudget      time.Duration
	OpenFindings    map[string]bool
	Debug           bool
	InitPkgs        []string // packages whose init is run eagerly (lenient)
	Trace           bool
	NoPOR           bool
	// KnownSigs: open known findings that are recognised by a signature: regular expressions
	// over the parked goroutines ("<function>:<op>") and/or the failure detail
	KnownSigs []KnownSig
}

type KnownSig struct {
	ID      string
	Blocked []*regexp.Regexp
	Detail  *regexp.Regexp
	Kinds   map[string]bool
	// IDs: if non-empty, the failure id must start with one of these (deadlocks: "deadlock")
	IDs []string
	// Requires: region ids (vKnown) that must all be active on the failing path
	Requires []string
}

type visitedShard struct {
	mu sync.Mutex
	m  map[[2]uint64]visitedEntry
}

type Engine struct {
	cfg   Config
	prog  *ssa.Program
	pkgs  []*packages.Package
	spkgs map[string]*ssa.Package

	infoMu       sync.RWMutex
	infos        map[*ssa.Function]*fnInfo
	overlayFiles map[string]bool

	intrByName  map[string]intrinsicFn
	intrByFn    map[*ssa.Function]intrinsicFn
	stubByFn    map[*ssa.Function]*ssa.Function
	visibleIntr map[*ssa.Function]bool
	opaqueFns   map[*ssa.Function]bool
	StubsUsed   map[string]string

	globals       map[*ssa.Global]uint32
	globalsBy     []*ssa.Global
	overlayGlobal map[*ssa.Global]bool

	gidMu sync.Mutex
	gids  map[[2]uint32]uint32

	res      *Results
	pool     *pool
	workers  []*Worker
	visited  []visitedShard
	live     *liveness
	deadline time.Time

	funcsMu   sync.Mutex
	funcsSeen map[*ssa.Function]bool

	LoadSeconds float64
}

func (e *Engine) Results() *Results  { return e.res }
func (e *Engine) Prog() *ssa.Program { return e.prog }

func NewEngine(cfg Config) (*Engine, error) {
	if cfg.MaxInstrPerPath == 0 {
		cfg.MaxInstrPerPath = 2_000_000
	}
	if cfg.MaxTransPerPath == 0 {
		cfg.MaxTransPerPath = 5000
	}
	if cfg.MaxStates == 0 {
		cfg.MaxStates = 20_000_000
	}
	if cfg.MaxFailures == 0 {
		cfg.MaxFailures = 10
	}
	if cfg.SolverTimeoutMs == 0 {
		cfg.SolverTimeoutMs = 20000
	}
	if cfg.Solver == "" {
		cfg.Solver = "z3"
	}
	if cfg.MapPermMax == 0 {
		cfg.MapPermMax = 3
	}
	if cfg.SamplePaths == 0 {
		cfg.SamplePaths = 3
	}
	e := &Engine{
		cfg:          cfg,
		infos:        map[*ssa.Function]*fnInfo{},
		overlayFiles: map[string]bool{},
		intrByFn:     map[*ssa.Function]intrinsicFn{},
		stubByFn:     map[*ssa.Function]*ssa.Function{},
		visibleIntr:  map[*ssa.Function]bool{},
		opaqueFns:    map[*ssa.Function]bool{},
		StubsUsed:    map[string]string{},
		globals:      map[*ssa.Global]uint32{},
		gids:         map[[2]uint32]uint32{},
		spkgs:        map[string]*ssa.Package{},
		funcsSeen:    map[*ssa.Function]bool{},
		live:         newLiveness(),
	}
	e.res = &Results{KnownIDs: map[string]map[string]int{}, KnownHits: map[string][]*Failure{}, Reach: map[string]int{}, Funcs: map[string]bool{}, failKeys: map[string]bool{}}
	e.visited = make([]visitedShard, 64)
	for i := range e.visited {
		e.visited[i].m = map[[2]uint64]visitedEntry{}
	}
	if err := e.load(); err != nil {
		return nil, err
	}
	return e, nil
}

// load builds the SSA program from the repository's current working tree plus overlays.
func (e *Engine) load() error {
	t0 := time.Now()
	cfg := &e.cfg
	overlay := map[string][]byte{}
	if cfg.HarnessDir != "" {
		err := filepath.Walk(cfg.HarnessDir, func(p string, info os.FileInfo, err error) error {
			if err != nil {
				return err
			}
			if info.IsDir() || !strings.HasSuffix(p, ".go") {
				return nil
			}
			rel, _ := filepath.Rel(cfg.HarnessDir, p)
			b, err := os.ReadFile(p)
			if err != nil {
				return err
			}
			virt := filepath.Join(cfg.RepoDir, rel)
			overlay[virt] = b
			return nil
		})
		if err != nil {
			return err
		}
	}
	for k, v := range cfg.Overlay {
		overlay[k] = v
	}
	for k := range overlay {
		e.overlayFiles[k] = true
	}
	pcfg := &packages.Config{
		Mode:    packages.LoadAllSyntax,
		Dir:     cfg.RepoDir,
		Overlay: overlay,
		Env:     append(os.Environ(), "GOFLAGS=-mod=mod", "GOPROXY=off", "GOSUMDB=off", "GOTOOLCHAIN=local"),
	}
	if len(cfg.Tags) > 0 {
		pcfg.BuildFlags = []string{"-tags=" + strings.Join(cfg.Tags, ",")}
	}
	pkgs, err := packages.Load(pcfg, cfg.Patterns...)
	if err != nil {
		return fmt.Errorf("HARNESS-BUILD-ERROR: %v", err)
	}
	var errs []string
	packages.Visit(pkgs, nil, func(p *packages.Package) {
		for _, er := range p.Errors {
			errs = append(errs, er.Error())
		}
	})
	if len(errs) > 0 {
		return fmt.Errorf("HARNESS-BUILD-ERROR: %s", strings.Join(errs, "\n"))
	}
	e.pkgs = pkgs
	prog, _ := ssautil.AllPackages(pkgs, ssa.InstantiateGenerics)
	prog.Build()
	e.prog = prog
	for _, p := range prog.AllPackages() {
		e.spkgs[p.Pkg.Path()] = p
	}
	// globals get deterministic static ids
	var gl []*ssa.Global
	for _, p := range prog.AllPackages() {
		for _, m := range p.Members {
			if g, ok := m.(*ssa.Global); ok {
				gl = append(gl, g)
			}
		}
	}
	sort.Slice(gl, func(i, j int) bool {
		a, b := gl[i], gl[j]
		if a.Pkg.Pkg.Path() != b.Pkg.Pkg.Path() {
			return a.Pkg.Pkg.Path() < b.Pkg.Pkg.Path()
		}
		return a.Name() < b.Name()
	})
	e.overlayGlobal = map[*ssa.Global]bool{}
	for i, g := range gl {
		e.globals[g] = uint32(i + 1)
		if pos := g.Pos(); pos.IsValid() && e.overlayFiles[prog.Fset.Position(pos).Filename] {
			e.overlayGlobal[g] = true
		}
	}
	e.globalsBy = gl
	e.registerIntrinsics()
	if err := e.scanDirectives(); err != nil {
		return err
	}
	e.LoadSeconds = time.Since(t0).Seconds()
	return nil
}

// funcByName resolves "pkg.Func", "(*pkg.T).M" or "(pkg.T).M" to an ssa.Function.
func (e *Engine) funcByName(name string) *ssa.Function {
	name = strings.TrimSpace(name)
	if strings.HasPrefix(name, "(") {
		// method
		end := strings.Index(name, ").")
		if end < 0 {
			return nil
		}
		recv := name[1:end]
		meth := name[end+2:]
		ptr := false
		if strings.HasPrefix(recv, "*") {
			ptr = true
			recv = recv[1:]
		}
		dot := strings.LastIndex(recv, ".")
		if dot < 0 {
			return nil
		}
		pkg := e.spkgs[recv[:dot]]
		if pkg == nil {
			return nil
		}
		tm, ok := pkg.Members[recv[dot+1:]].(*ssa.Type)
		if !ok {
			return nil
		}
		var t types.Type = tm.Type()
		if ptr {
			t = types.NewPointer(t)
		}
		ms := e.prog.MethodSets.MethodSet(t)
		for i := 0; i < ms.Len(); i++ {
			if ms.At(i).Obj().Name() == meth {
				return e.prog.MethodValue(ms.At(i))
			}
		}
		return nil
	}
	dot := strings.LastIndex(name, ".")
	if dot < 0 {
		return nil
	}
	pkg := e.spkgs[name[:dot]]
	if pkg == nil {
		return nil
	}
	return pkg.Func(name[dot+1:])
}

// scanDirectives processes //verif:stub and //verif:opaque comments in overlay files.
func (e *Engine) scanDirectives() error {
	var errs []string
	packages.Visit(e.pkgs, nil, func(p *packages.Package) {
		sp := e.spkgs[p.PkgPath]
		if sp == nil {
			return
		}
		for _, f := range p.Syntax {
			fname := p.Fset.Position(f.Pos()).Filename
			if !e.overlayFiles[fname] {
				continue
			}
			for _, cg := range f.Comments {
				for _, c := range cg.List {
					txt := strings.TrimSpace(strings.TrimPrefix(c.Text, "//"))
					if strings.HasPrefix(txt, "verif:opaque ") {
						target := strings.TrimSpace(strings.TrimPrefix(txt, "verif:opaque "))
						if tf := e.funcByName(target); tf != nil {
							e.opaqueFns[tf] = true
							e.intrByFn[tf] = intrOpaque
							e.StubsUsed[target] = "opaque"
						}
					}
				}
			}
			for _, d := range f.Decls {
				fd, ok := d.(*ast.FuncDecl)
				if !ok || fd.Doc == nil {
					continue
				}
				for _, c := range fd.Doc.List {
					txt := strings.TrimSpace(strings.TrimPrefix(c.Text, "//"))
					switch {
					case strings.HasPrefix(txt, "verif:stub "):
						target := strings.TrimSpace(strings.TrimPrefix(txt, "verif:stub "))
						tf := e.funcByName(strings.TrimSuffix(target, "?"))
						if tf == nil {
							// optional targets may be absent from the program (not reachable): ignore
							if !strings.HasSuffix(target, "?") {
								errs = append(errs, fmt.Sprintf("%s: stub target %q not found", fname, target))
							}
							continue
						}
						var sf *ssa.Function
						if fd.Recv == nil {
							sf = sp.Func(fd.Name.Name)
						}
						if sf == nil {
							errs = append(errs, fmt.Sprintf("%s: stub %s must be a plain function", fname, fd.Name.Name))
							continue
						}
						e.stubByFn[tf] = sf
						e.StubsUsed[target] = p.PkgPath + "." + fd.Name.Name
					}
				}
			}
		}
	})
	if len(errs) > 0 {
		return fmt.Errorf("HARNESS-BUILD-ERROR: %s", strings.Join(errs, "\n"))
	}
	return nil
}

// globalObj returns the heap object of a global, creating it on first use.
func (e *Engine) globalObj(st *State, g *G, gl *ssa.Global) ObjID {
	n, ok := e.globals[gl]
	if !ok {
		panic(abort{kind: "internal", msg: "unknown global " + gl.String()})
	}
	id := ObjID{G: 0, N: n}
	if st.obj(id) == nil {
		et := gl.Type().Underlying().(*types.Pointer).Elem()
		st.setStatic(n, e.zero(et))
	}
	return id
}

// NewRootState builds the initial state: globals of the configured packages initialised by
// running their init functions leniently, then the harness entry as main goroutine.
func (e *Engine) NewRootState() (*State, error) {
	st := newState()
	if e.cfg.Race {
		st.race = newRaceState()
	}
	mainG := &G{ID: 1, IsMain: true, Status: gRunnable}
	st.gs = append(st.gs, mainG)
	st.ensureG(1)
	// allocate all globals of init packages up front (zero), then run inits
	w := &Worker{e: e, unsatCache: map[[2]uint64]bool{}}
	ss, err := NewSolverSet(e.cfg.Solver, nil, e.cfg.SolverTimeoutMs)
	if err != nil {
		return nil, err
	}
	w.solver = ss
	defer ss.Close()
	for _, pp := range e.cfg.InitPkgs {
		sp := e.spkgs[pp]
		if sp == nil {
			return nil, fmt.Errorf("init package %s not loaded", pp)
		}
		initFn := sp.Func("init")
		if initFn == nil || len(initFn.Blocks) == 0 {
			continue
		}
		fr := e.pushFrame(st, mainG, initFn, nil, nil, fkInit)
		fr.Lenient = true
		// the init guard variable: pretend not yet initialised
		ev := e.run(w, st, mainG)
		if ev.Kind != evMainDone {
			msg := fmt.Sprintf("lenient init of %s did not complete: kind=%d", pp, ev.Kind)
			if ev.Ab != nil {
				msg += " " + ev.Ab.kind + ": " + ev.Ab.msg + " at " + e.posStr(ev.Ab.pos)
			}
			if ev.Fail != nil {
				msg += " " + ev.Fail.ID + " at " + ev.Fail.Pos + " " + strings.Join(ev.Fail.Stack, " <- ")
			}
			return nil, fmt.Errorf("%s", msg)
		}
		st.mainDone = false
		mainG.Status = gRunnable
	}
	// entry
	fn := e.funcByName(e.cfg.Entry)
	if fn == nil {
		return nil, fmt.Errorf("HARNESS-BUILD-ERROR: entry %s not found", e.cfg.Entry)
	}
	args := make([]Value, len(fn.Params))
	for i, p := range fn.Params {
		if !isInteger(p.Type()) {
			return nil, fmt.Errorf("entry parameter %s must be an integer", p.Name())
		}
		var v int64
		if i < len(e.cfg.Args) {
			v = e.cfg.Args[i]
		}
		args[i] = BV(e.intWidth(p.Type().Underlying().(*types.Basic)), uint64(v))
	}
	e.pushFrame(st, mainG, fn, args, nil, fkRoot)
	mainG.Root = fn
	st.nInstr = 0
	if e.cfg.WallBudget > 0 {
		e.deadline = time.Now().Add(e.cfg.WallBudget)
	}
	return st, nil
}

func (e *Engine) noteFunc(fn *ssa.Function) {
	e.funcsMu.Lock()
	e.funcsSeen[fn] = true
	e.funcsMu.Unlock()
}

// FuncsEncoded lists the repository functions that were executed symbolically.
func (e *Engine) FuncsEncoded() []string {
	e.infoMu.RLock()
	defer e.infoMu.RUnlock()
	var out []string
	for fn, fi := range e.infos {
		if fi.repo {
			out = append(out, fn.String())
		}
	}
	sort.Strings(out)
	return out
}

// DepFuncsEncoded lists non-repository, non-overlay functions executed for real.
func (e *Engine) DepFuncsEncoded() []string {
	e.infoMu.RLock()
	defer e.infoMu.RUnlock()
	var out []string
	for fn, fi := range e.infos {
		if !fi.repo && !fi.overlay {
			out = append(out, fn.String())
		}
	}
	sort.Strings(out)
	return out
}

var _ = token.NoPos

// SolverStats aggregates per-solver statistics over all workers.
func (e *Engine) SolverStats() map[string]interface{} {
	agg := map[string]*SolverStats{}
	add := func(s *Solver) {
		a := agg[s.Name]
		if a == nil {
			a = &SolverStats{}
			agg[s.Name] = a
		}
		a.Queries += s.Stats.Queries
		a.Sat += s.Stats.Sat
		a.Unsat += s.Stats.Unsat
		a.Unknown += s.Stats.Unknown
		a.Errors += s.Stats.Errors
		a.CacheHit += s.Stats.CacheHit
		a.Seconds += s.Stats.Seconds
		a.Restarts += s.Stats.Restarts
	}
	for _, w := range e.workers {
		add(w.solver.Primary)
		for _, o := range w.solver.Others {
			add(o)
		}
	}
	out := map[string]interface{}{}
	for k, v := range agg {
		out[k] = map[string]interface{}{"queries": v.Queries, "sat": v.Sat, "unsat": v.Unsat, "unknown": v.Unknown,
			"errors": v.Errors, "cache_hits": v.CacheHit, "seconds": v.Seconds, "restarts": v.Restarts}
	}
	var dis []string
	for _, w := range e.workers {
		dis = append(dis, w.solver.Disagreements...)
	}
	out["disagreements"] = dis
	return out
}
