// vinstr instruments the root package of the repository (its own files and the harness overlay
// files) for the native schedule replay: before every statement that performs an operation the
// engine schedules (mutex, channel, select, sync/atomic, Once, WaitGroup, context operations) a
// call of vY("<file>:<line>") is inserted *on the same line* (line numbers stay what they are);
// select statements get their communication channels wrapped so that the controller can force
// the case the engine chose; go statements hand the new goroutine its logical id.
//
// Output: one instrumented copy per file in -out, and -out/overlay.json mapping the original
// paths to them ({"Replace": {...}}), merged with the entries of -base (an existing overlay).
package main

import (
	"encoding/json"
	"flag"
	"fmt"
	"go/ast"
	"go/token"
	"go/types"
	"os"
	"path/filepath"
	"sort"
	"strings"

	"golang.org/x/tools/go/packages"
)

type edit struct {
	off  int
	ord  int // order among edits at the same offset (smaller first)
	text string
}

type instr struct {
	fset  *token.FileSet
	info  *types.Info
	src   []byte
	file  *token.File
	edits []edit
	nsel  int
	seen  map[string]bool
	fname string
}

func (in *instr) add(pos token.Pos, ord int, text string) {
	in.edits = append(in.edits, edit{in.file.Offset(pos), ord, text})
}

func (in *instr) site(pos token.Pos) string {
	p := in.fset.Position(pos)
	return fmt.Sprintf("%s:%d", p.Filename, p.Line)
}

// funcName returns the full name of the statically known callee of a call, or "".
func (in *instr) funcName(call *ast.CallExpr) string {
	var id *ast.Ident
	switch f := ast.Unparen(call.Fun).(type) {
	case *ast.Ident:
		id = f
	case *ast.SelectorExpr:
		id = f.Sel
	case *ast.IndexExpr:
		if s, ok := f.X.(*ast.SelectorExpr); ok {
			id = s.Sel
		} else if i, ok := f.X.(*ast.Ident); ok {
			id = i
		}
	}
	if id == nil {
		return ""
	}
	switch o := in.info.Uses[id].(type) {
	case *types.Func:
		return o.FullName()
	case *types.Builtin:
		return "builtin." + o.Name()
	}
	return ""
}

var visibleFuncs = map[string]bool{
	"(*sync.Mutex).Lock": true, "(*sync.Mutex).Unlock": true, "(*sync.Mutex).TryLock": true,
	"(*sync.RWMutex).Lock": true, "(*sync.RWMutex).Unlock": true, "(*sync.RWMutex).RLock": true, "(*sync.RWMutex).RUnlock": true,
	"(*sync.Once).Do": true, "(*sync.WaitGroup).Wait": true, "(*sync.WaitGroup).Add": true, "(*sync.WaitGroup).Done": true,
	"builtin.close":       true,
	"context.WithCancel":  true, "context.WithTimeout": true, "context.WithDeadline": true,
	"(context.Context).Err": true,
}

// spawnSkips: calls that start engine-only goroutines in the calling goroutine (stub models).
var spawnSkips = map[string]int{"time.After": 1, "context.WithTimeout": 1, "context.WithDeadline": 1}

func (in *instr) isVisibleCall(call *ast.CallExpr) bool {
	name := in.funcName(call)
	if visibleFuncs[name] || strings.HasPrefix(name, "sync/atomic.") || strings.HasPrefix(name, "(*sync/atomic.") {
		return true
	}
	// a call of a context.CancelFunc value
	if tv, ok := in.info.Types[call.Fun]; ok && tv.Type != nil {
		if nt, ok := tv.Type.(*types.Named); ok && nt.Obj().Pkg() != nil && nt.Obj().Pkg().Path() == "context" && nt.Obj().Name() == "CancelFunc" {
			return true
		}
	}
	return false
}

func (in *instr) isChan(e ast.Expr) bool {
	if tv, ok := in.info.Types[e]; ok && tv.Type != nil {
		_, ok := tv.Type.Underlying().(*types.Chan)
		return ok
	}
	return false
}

// stmtList reports whether n holds a statement list and returns it.
func stmtList(n ast.Node) ([]ast.Stmt, bool) {
	switch b := n.(type) {
	case *ast.BlockStmt:
		return b.List, true
	case *ast.CaseClause:
		return b.Body, true
	case *ast.CommClause:
		return b.Body, true
	}
	return nil, false
}

func (in *instr) run(f *ast.File) {
	var stack []ast.Node
	// the statement (directly inside a statement list) that encloses the node on top of the stack
	enclosing := func() ast.Stmt {
		for i := len(stack) - 1; i > 0; i-- {
			s, ok := stack[i].(ast.Stmt)
			if !ok {
				if _, isLit := stack[i].(*ast.FuncLit); isLit {
					return nil // (cannot happen: a literal's body is a block)
				}
				continue
			}
			if list, ok := stmtList(stack[i-1]); ok {
				for _, x := range list {
					if x == s {
						return s
					}
				}
			}
			if ls, ok := stack[i-1].(*ast.LabeledStmt); ok && ls.Stmt == s {
				continue // the labeled statement itself is the list member
			}
		}
		return nil
	}
	inComm := func() bool { // inside the communication of a select clause (handled with the select)
		for i := len(stack) - 1; i > 0; i-- {
			if cc, ok := stack[i-1].(*ast.CommClause); ok && cc.Comm == stack[i] {
				return true
			}
			if _, ok := stack[i].(*ast.FuncLit); ok {
				return false
			}
		}
		return false
	}
	yieldBefore := func(op ast.Node) {
		if inComm() {
			return
		}
		s := enclosing()
		if s == nil {
			return
		}
		site := in.site(op.Pos())
		// a deferred visible call: defer x.Unlock()  =>  defer func() { vY(site); x.Unlock() }()
		if d, ok := s.(*ast.DeferStmt); ok && d.Call == op {
			key := fmt.Sprintf("defer@%d", in.file.Offset(d.Pos()))
			if !in.seen[key] {
				in.seen[key] = true
				in.add(d.Call.Pos(), 5, fmt.Sprintf("func() { vY(%q); ", site))
				in.add(d.Call.End(), 5, " }()")
			}
			return
		}
		if _, ok := s.(*ast.SelectStmt); ok {
			return
		}
		key := fmt.Sprintf("%d|%s", in.file.Offset(s.Pos()), site)
		if in.seen[key] {
			return
		}
		in.seen[key] = true
		in.add(s.Pos(), 1, fmt.Sprintf("vY(%q); ", site))
	}
	ast.Inspect(f, func(n ast.Node) bool {
		if n == nil {
			stack = stack[:len(stack)-1]
			return true
		}
		stack = append(stack, n)
		switch x := n.(type) {
		case *ast.CallExpr:
			if in.isVisibleCall(x) {
				yieldBefore(x)
			}
			if k := spawnSkips[in.funcName(x)]; k > 0 {
				if s := enclosing(); s != nil && !inComm() {
					key := fmt.Sprintf("skip@%d@%d", in.file.Offset(s.Pos()), in.file.Offset(x.Pos()))
					if !in.seen[key] {
						in.seen[key] = true
						in.add(s.Pos(), 2, fmt.Sprintf("vSpawnSkip(%d); ", k))
					}
				}
			}
		case *ast.SendStmt:
			yieldBefore(x)
		case *ast.UnaryExpr:
			if x.Op == token.ARROW {
				yieldBefore(x)
			}
		case *ast.RangeStmt:
			if in.isChan(x.X) {
				// one yield per iteration is not expressible on one line without changing the
				// loop; yield before the loop and at the start of the body
				in.add(x.Body.Lbrace+1, 1, fmt.Sprintf(" vY(%q);", in.site(x.Pos())))
			}
		case *ast.SelectStmt:
			in.selectStmt(x, stack)
		case *ast.GoStmt:
			in.goStmt(x)
		}
		return true
	})
}

func (in *instr) selectStmt(s *ast.SelectStmt, stack []ast.Node) {
	// labeled selects keep their label semantics only if nothing is put between label and
	// statement: yield (unforced) before the label instead
	if len(stack) >= 2 {
		if ls, ok := stack[len(stack)-2].(*ast.LabeledStmt); ok && ls.Stmt == s {
			in.add(ls.Pos(), 1, fmt.Sprintf("vY(%q); ", in.site(s.Pos())))
			return
		}
	}
	in.nsel++
	v := fmt.Sprintf("vsel%d", in.nsel)
	in.add(s.Pos(), 1, fmt.Sprintf("%s := vYS(%q); ", v, in.site(s.Pos())))
	k := 0
	for _, c := range s.Body.List {
		cc := c.(*ast.CommClause)
		if cc.Comm == nil {
			continue // default
		}
		switch st := cc.Comm.(type) {
		case *ast.SendStmt:
			in.add(st.Chan.Pos(), 1, fmt.Sprintf("vSelS(%s, %d, ", v, k))
			in.add(st.Chan.End(), 1, ")")
		case *ast.ExprStmt:
			if u, ok := ast.Unparen(st.X).(*ast.UnaryExpr); ok && u.Op == token.ARROW {
				in.add(u.X.Pos(), 1, fmt.Sprintf("vSelR(%s, %d, ", v, k))
				in.add(u.X.End(), 1, ")")
			}
		case *ast.AssignStmt:
			if len(st.Rhs) == 1 {
				if u, ok := ast.Unparen(st.Rhs[0]).(*ast.UnaryExpr); ok && u.Op == token.ARROW {
					in.add(u.X.Pos(), 1, fmt.Sprintf("vSelR(%s, %d, ", v, k))
					in.add(u.X.End(), 1, ")")
				}
			}
		}
		k++
	}
}

func (in *instr) goStmt(g *ast.GoStmt) {
	call := g.Call
	if lit, ok := ast.Unparen(call.Fun).(*ast.FuncLit); ok {
		// { vgid := vSpawn(); go func(...) { vEnter(vgid); defer vLeave(); ... }(...) }
		in.add(g.Pos(), 3, "{ vgid := vSpawn(); ")
		in.add(lit.Body.Lbrace+1, 1, " vEnter(vgid); defer vLeave();")
		in.add(g.End(), 9, " }")
		return
	}
	// go f(a, b)  =>  { vgid := vSpawn(); vf, va0, va1 := f, a, b; go func() { vEnter(vgid); defer vLeave(); vf(va0, va1) }() }
	src := func(n ast.Node) string { return string(in.src[in.file.Offset(n.Pos()):in.file.Offset(n.End())]) }
	names := []string{"vf"}
	vals := []string{src(call.Fun)}
	var args []string
	for i, a := range call.Args {
		nm := fmt.Sprintf("va%d", i)
		names = append(names, nm)
		v := src(a)
		// keep the parameter type of untyped constants
		if tv, ok := in.info.Types[a]; ok && tv.Value != nil {
			if b, ok := tv.Type.(*types.Basic); ok && b.Info()&types.IsUntyped == 0 {
				v = fmt.Sprintf("%s(%s)", b.Name(), v)
			}
		}
		vals = append(vals, v)
		if i == len(call.Args)-1 && call.Ellipsis.IsValid() {
			nm += "..."
		}
		args = append(args, nm)
	}
	repl := fmt.Sprintf("{ vgid := vSpawn(); %s := %s; go func() { vEnter(vgid); defer vLeave(); vf(%s) }() }",
		strings.Join(names, ", "), strings.Join(vals, ", "), strings.Join(args, ", "))
	// replace the whole statement text
	in.edits = append(in.edits, edit{in.file.Offset(g.Pos()), 3, "\x00" + fmt.Sprint(in.file.Offset(g.End())) + "\x00" + repl})
}

func (in *instr) apply() []byte {
	sort.SliceStable(in.edits, func(i, j int) bool {
		if in.edits[i].off != in.edits[j].off {
			return in.edits[i].off < in.edits[j].off
		}
		return in.edits[i].ord < in.edits[j].ord
	})
	var out []byte
	cur := 0
	for _, e := range in.edits {
		if e.off < cur {
			// inside a replaced region (edits within a replaced go statement): dropped
			continue
		}
		out = append(out, in.src[cur:e.off]...)
		cur = e.off
		if strings.HasPrefix(e.text, "\x00") {
			parts := strings.SplitN(e.text[1:], "\x00", 2)
			var end int
			fmt.Sscan(parts[0], &end)
			// a replacement must not swallow new lines: keep them
			nl := strings.Count(string(in.src[e.off:end]), "\n")
			out = append(out, parts[1]...)
			out = append(out, strings.Repeat("\n", nl)...)
			cur = end
			continue
		}
		out = append(out, e.text...)
	}
	out = append(out, in.src[cur:]...)
	return out
}

func main() {
	repo := flag.String("repo", "/repo", "repository directory")
	harness := flag.String("harness", "", "harness overlay directory (files for the root package)")
	base := flag.String("base", "", "existing overlay json to merge")
	outDir := flag.String("out", "", "output directory")
	tags := flag.String("tags", "verif,verifnative", "build tags")
	flag.Parse()
	if *outDir == "" || *harness == "" {
		fmt.Fprintln(os.Stderr, "usage: vinstr -repo R -harness H -out D [-base overlay.json]")
		os.Exit(2)
	}
	must := func(err error) {
		if err != nil {
			fmt.Fprintln(os.Stderr, "vinstr:", err)
			os.Exit(2)
		}
	}
	must(os.MkdirAll(*outDir, 0o755))
	replace := map[string]string{}
	if *base != "" {
		b, err := os.ReadFile(*base)
		must(err)
		var ov struct{ Replace map[string]string }
		must(json.Unmarshal(b, &ov))
		for k, v := range ov.Replace {
			replace[k] = v
		}
	}
	overlay := map[string][]byte{}
	for k, v := range replace {
		b, err := os.ReadFile(v)
		must(err)
		overlay[k] = b
	}
	hs, _ := filepath.Glob(filepath.Join(*harness, "zz_verif_*.go"))
	for _, h := range hs {
		dst := filepath.Join(*repo, filepath.Base(h))
		if _, ok := overlay[dst]; ok {
			continue
		}
		b, err := os.ReadFile(h)
		must(err)
		overlay[dst] = b
		replace[dst] = h
	}
	cfg := &packages.Config{
		Mode:       packages.NeedName | packages.NeedFiles | packages.NeedCompiledGoFiles | packages.NeedSyntax | packages.NeedTypes | packages.NeedTypesInfo | packages.NeedImports | packages.NeedDeps,
		Dir:        *repo,
		Overlay:    overlay,
		BuildFlags: []string{"-tags=" + *tags},
		Tests:      false,
	}
	pkgs, err := packages.Load(cfg, ".")
	must(err)
	if len(pkgs) != 1 {
		must(fmt.Errorf("expected one package, got %d", len(pkgs)))
	}
	p := pkgs[0]
	if len(p.Errors) > 0 {
		must(fmt.Errorf("package errors: %v", p.Errors))
	}
	n := 0
	for i, f := range p.Syntax {
		name := p.CompiledGoFiles[i]
		if strings.HasSuffix(name, "zz_verif_rt.go") || strings.HasSuffix(name, "zz_verif_sched.go") || strings.HasSuffix(name, "zz_verif_stubs.go") {
			continue // the runtime itself and the engine-only models
		}
		src, ok := overlay[name]
		if !ok {
			src, err = os.ReadFile(name)
			must(err)
		}
		in := &instr{fset: p.Fset, info: p.TypesInfo, src: src, file: p.Fset.File(f.Pos()), seen: map[string]bool{}, fname: name}
		in.run(f)
		if len(in.edits) == 0 {
			continue
		}
		out := in.apply()
		dst := filepath.Join(*outDir, fmt.Sprintf("i%03d_%s", i, filepath.Base(name)))
		must(os.WriteFile(dst, out, 0o644))
		replace[name] = dst
		n++
	}
	b, _ := json.MarshalIndent(map[string]interface{}{"Replace": replace}, "", " ")
	must(os.WriteFile(filepath.Join(*outDir, "overlay.json"), b, 0o644))
	fmt.Printf("vinstr: %d files instrumented, overlay %s\n", n, filepath.Join(*outDir, "overlay.json"))
}
