package main

import (
	"encoding/json"
	"flag"
	"fmt"
	"os"
	"regexp"
	"runtime"
	"sort"
	"strconv"
	"strings"
	"time"

	"verif/engine/symgo"
)

type failureOut struct {
	Kind      string               `json:"kind"`
	ID        string               `json:"id"`
	Pos       string               `json:"pos"`
	Detail    string               `json:"detail,omitempty"`
	Model     map[string]uint64    `json:"model,omitempty"`
	Decisions []string             `json:"decisions,omitempty"`
	Choices   []decOut             `json:"choices,omitempty"`
	Known     []string             `json:"known,omitempty"`
	Stack     []string             `json:"stack,omitempty"`
	Blocked   []string             `json:"blocked,omitempty"`
	Schedule  []symgo.SchedStep    `json:"schedule,omitempty"`
	Gids      map[string][2]uint32 `json:"gids,omitempty"`
}

type decOut struct {
	Kind string `json:"kind"`
	Desc string `json:"desc"`
	Val  int    `json:"val"`
}

type output struct {
	Entry        string                    `json:"entry"`
	Args         []int64                   `json:"args"`
	Failures     []failureOut              `json:"failures"`
	KnownHits    map[string][]failureOut   `json:"known_hits"`
	KnownIDs     map[string]map[string]int `json:"known_ids"`
	Inconclusive []string                  `json:"inconclusive"`
	Reach        map[string]int            `json:"reach"`
	Samples      []map[string]interface{}  `json:"samples"`
	Stats        map[string]interface{}    `json:"stats"`
	Funcs        []string                  `json:"functions_encoded"`
	DepFuncs     []string                  `json:"dependency_functions_executed"`
	Stubs        map[string]string         `json:"stubs"`
	Solver       map[string]interface{}    `json:"solver"`
	Observations []string                  `json:"observations,omitempty"`
	ObsPaths     [][]string                `json:"observation_paths,omitempty"`
	Error        string                    `json:"error,omitempty"`
	WallS        float64                   `json:"wall_s"`
	LoadS        float64                   `json:"load_s"`
}

func main() {
	var (
		repo     = flag.String("repo", "/repo", "repository directory")
		harness  = flag.String("harness", "", "harness overlay directory")
		pkgs     = flag.String("pkgs", ".", "comma separated package patterns")
		entry    = flag.String("entry", "", "entry function, e.g. github.com/relab/gorums.VerifC19")
		args     = flag.String("args", "", "comma separated integer arguments")
		workers  = flag.Int("workers", runtime.NumCPU(), "worker count")
		outFile  = flag.String("out", "", "result json path (default stdout)")
		stateful = flag.Bool("stateful", true, "visited-state caching")
		nosleep  = flag.Bool("nosleep", false, "disable sleep sets")
		race     = flag.Bool("race", false, "enable race monitor")
		solver   = flag.String("solver", "z3", "primary solver")
		diff     = flag.String("diff", "", "comma separated differential solvers")
		timeout  = flag.Int("solver-timeout-ms", 20000, "per query timeout")
		maxInstr = flag.Int("max-instr", 2000000, "instruction budget per path")
		maxTrans = flag.Int("max-trans", 5000, "transition budget per path")
		maxSt    = flag.Int64("max-states", 20000000, "scheduling state budget")
		maxFail  = flag.Int("max-failures", 12, "stop after this many distinct failures")
		seed     = flag.Int64("seed", 0, "exploration order seed")
		wall     = flag.Duration("wall", 0, "wall clock budget")
		open     = flag.String("open", "", "comma separated open known-finding ids")
		initp    = flag.String("init", "", "comma separated packages whose init runs eagerly")
		tags     = flag.String("tags", "verif", "build tags")
		debug    = flag.Bool("debug", false, "crash on engine panics")
		trace    = flag.Bool("trace", false, "print vTrace output")
		samples  = flag.Int("samples", 3, "sample paths to record")
		nopor    = flag.Bool("nopor", false, "disable the persistent-set reduction")
		sigFile  = flag.String("known-sigs", "", "json file: [{id, blocked:[regex], detail:regex, kinds:[..]}] signatures of open known findings")
	)
	flag.Parse()
	t0 := time.Now()
	cfg := symgo.Config{
		RepoDir:         *repo,
		Patterns:        strings.Split(*pkgs, ","),
		HarnessDir:      *harness,
		Tags:            strings.Split(*tags, ","),
		Entry:           *entry,
		Workers:         *workers,
		Solver:          *solver,
		SolverTimeoutMs: *timeout,
		MaxInstrPerPath: *maxInstr,
		MaxTransPerPath: *maxTrans,
		MaxStates:       *maxSt,
		MaxFailures:     *maxFail,
		Stateful:        *stateful,
		NoSleep:         *nosleep,
		Race:            *race,
		Seed:            *seed,
		WallBudget:      *wall,
		OpenFindings:    map[string]bool{},
		Debug:           *debug,
		Trace:           *trace,
		SamplePaths:     *samples,
		NoPOR:           *nopor,
	}
	if *sigFile != "" {
		b, err := os.ReadFile(*sigFile)
		if err != nil {
			fmt.Fprintln(os.Stderr, "known-sigs:", err)
			os.Exit(2)
		}
		var raw []struct {
			ID       string   `json:"id"`
			Blocked  []string `json:"blocked"`
			Detail   string   `json:"detail"`
			Kinds    []string `json:"kinds"`
			IDs      []string `json:"ids"`
			Requires []string `json:"requires"`
		}
		if err := json.Unmarshal(b, &raw); err != nil {
			fmt.Fprintln(os.Stderr, "known-sigs:", err)
			os.Exit(2)
		}
		for _, r := range raw {
			ks := symgo.KnownSig{ID: r.ID, Kinds: map[string]bool{}, IDs: r.IDs, Requires: r.Requires}
			for _, x := range r.Blocked {
				ks.Blocked = append(ks.Blocked, regexp.MustCompile(x))
			}
			if r.Detail != "" {
				ks.Detail = regexp.MustCompile(r.Detail)
			}
			for _, k := range r.Kinds {
				ks.Kinds[k] = true
			}
			cfg.KnownSigs = append(cfg.KnownSigs, ks)
		}
	}
	if *diff != "" {
		cfg.DiffSolvers = strings.Split(*diff, ",")
	}
	if *initp != "" {
		cfg.InitPkgs = strings.Split(*initp, ",")
	}
	if *open != "" {
		for _, o := range strings.Split(*open, ",") {
			cfg.OpenFindings[o] = true
		}
	}
	if *args != "" {
		for _, a := range strings.Split(*args, ",") {
			v, err := strconv.ParseInt(strings.TrimSpace(a), 10, 64)
			if err != nil {
				fmt.Fprintln(os.Stderr, "bad -args:", err)
				os.Exit(2)
			}
			cfg.Args = append(cfg.Args, v)
		}
	}
	out := output{Entry: *entry, Args: cfg.Args, KnownHits: map[string][]failureOut{}}
	emit := func(code int) {
		out.WallS = time.Since(t0).Seconds()
		b, _ := json.MarshalIndent(out, "", " ")
		if *outFile != "" {
			os.WriteFile(*outFile, b, 0o644)
		} else {
			os.Stdout.Write(b)
			fmt.Println()
		}
		os.Exit(code)
	}
	eng, err := symgo.NewEngine(cfg)
	if err != nil {
		out.Error = err.Error()
		emit(2)
	}
	out.LoadS = eng.LoadSeconds
	root, err := eng.NewRootState()
	if err != nil {
		out.Error = err.Error()
		emit(2)
	}
	if err := eng.Explore(root); err != nil {
		out.Error = err.Error()
	}
	res := eng.Results()
	conv := func(f *symgo.Failure) failureOut {
		fo := failureOut{Kind: f.Kind, ID: f.ID, Pos: f.Pos, Detail: f.Detail, Model: f.Model, Known: f.Known, Stack: f.Stack, Blocked: f.Blocked}
		fo.Schedule = eng.ScheduleOf(f)
		if len(fo.Schedule) > 0 {
			fo.Gids = map[string][2]uint32{}
			for id, k := range f.Gids {
				fo.Gids[fmt.Sprint(id)] = k
			}
		}
		for _, d := range f.Decs {
			fo.Decisions = append(fo.Decisions, fmt.Sprintf("%s:%s=%d", d.Kind, d.Desc, d.Val))
			if d.Kind != "sched" {
				fo.Choices = append(fo.Choices, decOut{d.Kind, d.Desc, d.Val})
			}
		}
		return fo
	}
	for _, f := range res.Failures {
		out.Failures = append(out.Failures, conv(f))
	}
	out.KnownIDs = res.KnownIDs
	for k, fs := range res.KnownHits {
		for _, f := range fs {
			out.KnownHits[k] = append(out.KnownHits[k], conv(f))
		}
	}
	out.Inconclusive = res.Inconclusive
	out.Reach = res.Reach
	out.Samples = res.Samples
	out.Observations = res.Observations
	out.ObsPaths = res.ObsPaths
	out.Funcs = eng.FuncsEncoded()
	out.DepFuncs = eng.DepFuncsEncoded()
	out.Stubs = eng.StubsUsed
	out.Stats = map[string]interface{}{
		"paths_finished": res.PathsFinished, "paths_pruned": res.PathsPruned, "sleep_blocked": res.SleepBlocked,
		"cache_hits": res.CacheHits, "states": res.States, "transitions": res.Transitions, "forks": res.Forks,
		"instructions": res.Instrs, "unknown_branches": res.UnknownBranches, "model_hits": res.ModelHits, "por_reduced_states": res.PORReduced, "por_proviso_expansions": res.PORProviso, "por": !cfg.NoPOR, "max_depth": res.MaxDepth,
		"workers": cfg.Workers, "stateful": cfg.Stateful, "sleep_sets": !cfg.NoSleep, "race_monitor": cfg.Race,
	}
	out.Solver = eng.SolverStats()
	sort.Strings(out.Inconclusive)
	code := 0
	if len(out.Failures) > 0 {
		code = 1
	}
	if len(out.Inconclusive) > 0 || out.Error != "" {
		if code == 0 {
			code = 2
		}
	}
	emit(code)
}
