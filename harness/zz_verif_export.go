//go:build verif

package gorums

import (
	"google.golang.org/protobuf/reflect/protoreflect"
)

// Accessors for harnesses in other packages (the generated code of cmd/protoc-gen-gorums/dev):
// construction of a thin-transport configuration and the two environment actions on it.
// Read-only with respect to library state except for construction.

// VerifThinConfig returns a configuration of n thin-transport nodes (ids 1..n).
func VerifThinConfig(n int) RawConfiguration {
	cfg, _ := vThinConfig(n, 1)
	return cfg
}

// VerifTake removes the request queued for node i (0-based); ok is false if there is none.
func VerifTake(cfg RawConfiguration, i int) (msg protoreflect.ProtoMessage, id uint64, method string, ok bool) {
	r, ok := vTake(cfg[i])
	if !ok {
		return nil, 0, "", false
	}
	return r.msg.Message, r.msg.Metadata.MessageID, r.msg.Metadata.Method, true
}

// VerifRoute answers message id on node i with a reply or an error, through the real routeResponse.
func VerifRoute(cfg RawConfiguration, i int, id uint64, reply protoreflect.ProtoMessage, err error) {
	cfg[i].channel.routeResponse(id, response{nid: cfg[i].id, msg: reply, err: err})
}

// VerifRouters reports the number of routing entries on node i.
func VerifRouters(cfg RawConfiguration, i int) int { return vRouters(cfg[i]) }
