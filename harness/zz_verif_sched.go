//go:build verif && verifnative

package gorums

// Native schedule replay (DESIGN 3.9, class S). The files of this package are compiled from
// copies instrumented by /verif/engine/cmd/vinstr: every operation the engine schedules is
// preceded by a yield point vY("<file>:<line>"). With VERIF_SCHEDULE set, a controller
// goroutine serialises the registered goroutines and grants the yield points in the order of
// the engine's counterexample (goroutine ids are mapped through the engine's (parent, n-th
// spawn) table; select cases are forced through vSelR/vSelS). Without it everything here is a
// no-op. The controller is tolerant: a native yield point the engine has no step for is passed
// when its goroutine is next due; an engine step that has no native yield point (engine-only
// stub code, two-phase lock operations) is skipped. A replay that drifts apart does not
// reproduce the failure and is reported as unconfirmed, never as confirmed.

import (
	"encoding/json"
	"fmt"
	"os"
	"runtime"
	"strconv"
	"strings"
	"sync"
	"time"
)

type vSchedStep struct {
	G       uint32 `json:"g"`
	Kind    string `json:"kind"`
	Site    string `json:"site"`
	Case    int    `json:"case"`
	Partner uint32 `json:"partner"`
	PCase   int    `json:"pcase"`
	PSite   string `json:"psite"`
	Stub    bool   `json:"stub"`
	Caller  string `json:"caller"`
}

type vSchedFile struct {
	Steps []vSchedStep         `json:"schedule"`
	Gids  map[string][2]uint32 `json:"gids"`
}

const vFree = -2

type vGor struct {
	id       uint32
	site     string
	waiting  bool
	done     bool
	free     bool
	spawnN   uint32
	wake     chan int
	lastSite string // site of the last grant
}

var vSch struct {
	mu       sync.Mutex
	on       bool
	steps    []vSchedStep
	gids     map[[2]uint32]uint32
	gidsRev  map[uint32][2]uint32
	gs       map[uint32]*vGor
	byGoid   map[int64]*vGor
	arrived  chan struct{}
	finished chan struct{}
	log      []string
	nextUnk  uint32
}

func init() {
	vSchedEndHook = func() {
		if vSch.finished != nil {
			select {
			case <-vSch.finished:
			case <-time.After(5 * time.Second):
			}
		}
	}
	vSchedStartHook = vSchedStart
	vYieldHook = func(skip int) bool { return vYieldHere(skip + 1) }
}

func vGoid() int64 {
	var buf [64]byte
	n := runtime.Stack(buf[:], false)
	// "goroutine 123 [running]:"
	s := strings.TrimPrefix(string(buf[:n]), "goroutine ")
	if i := strings.IndexByte(s, ' '); i > 0 {
		id, _ := strconv.ParseInt(s[:i], 10, 64)
		return id
	}
	return -1
}

func vSchedLog(format string, a ...interface{}) {
	if os.Getenv("VERIF_SCHED_TRACE") != "" {
		fmt.Printf("SCHED "+format+"\n", a...)
	}
}

// vSchedStart loads the schedule and registers the calling goroutine as the harness main
// goroutine (id 1). It returns false if there is no schedule to replay.
func vSchedStart() bool {
	p := os.Getenv("VERIF_SCHEDULE")
	if p == "" {
		return false
	}
	b, err := os.ReadFile(p)
	if err != nil {
		panic(err)
	}
	var f vSchedFile
	if err := json.Unmarshal(b, &f); err != nil {
		panic(err)
	}
	vSch.mu.Lock()
	vSch.steps = f.Steps
	vSch.gids = map[[2]uint32]uint32{}
	vSch.gidsRev = map[uint32][2]uint32{}
	for k, v := range f.Gids {
		id, _ := strconv.ParseUint(k, 10, 32)
		vSch.gids[v] = uint32(id)
		vSch.gidsRev[uint32(id)] = v
	}
	vSch.gs = map[uint32]*vGor{}
	vSch.byGoid = map[int64]*vGor{}
	vSch.arrived = make(chan struct{}, 1)
	vSch.finished = make(chan struct{})
	vSch.nextUnk = 100000
	vSch.on = true
	g := &vGor{id: 1, wake: make(chan int, 1)}
	vSch.gs[1] = g
	vSch.byGoid[vGoid()] = g
	vSch.mu.Unlock()
	go vSchedController()
	return true
}

func vSelf() *vGor {
	if !vSch.on {
		return nil
	}
	id := vGoid()
	vSch.mu.Lock()
	g := vSch.byGoid[id]
	vSch.mu.Unlock()
	return g
}

// vY: yield point before a scheduled operation.
func vY(site string) { vYS(site) }

// vYS: yield point before a select statement; returns the case to take (vFree: any).
func vYS(site string) int {
	g := vSelf()
	if g == nil {
		return vFree
	}
	vSch.mu.Lock()
	if !vSch.on || g.free {
		vSch.mu.Unlock()
		return vFree
	}
	g.site, g.waiting = site, true
	vSch.mu.Unlock()
	select {
	case vSch.arrived <- struct{}{}:
	default:
	}
	c := <-g.wake
	return c
}

// vYieldHere is used by the v* primitives that are themselves scheduled operations
// (vAtomic, vQuiescent): the site is the caller's caller.
func vYieldHere(skip int) bool {
	if !vSch.on {
		return false
	}
	_, file, line, ok := runtime.Caller(skip + 1)
	if !ok {
		return false
	}
	if vSelf() == nil {
		return false
	}
	vYS(fmt.Sprintf("%s:%d", file, line))
	return true
}

// vSelR / vSelS wrap the channel of a select case: with a forced case every other case gets a
// nil channel (never ready).
func vSelR[T any](forced, k int, ch <-chan T) <-chan T {
	if forced == vFree || forced == k {
		return ch
	}
	return nil
}

func vSelS[T any](forced, k int, ch chan<- T) chan<- T {
	if forced == vFree || forced == k {
		return ch
	}
	return nil
}

// vSpawn is called by the parent right before a go statement; the result is handed to the
// new goroutine, which registers itself with vEnter.
func vSpawn() uint32 {
	g := vSelf()
	if g == nil {
		return 0
	}
	vSch.mu.Lock()
	defer vSch.mu.Unlock()
	g.spawnN++
	id, ok := vSch.gids[[2]uint32{g.id, g.spawnN}]
	ng := &vGor{wake: make(chan int, 1)}
	if !ok || g.free {
		// unknown to the engine's counterexample: runs free
		vSch.nextUnk++
		id = vSch.nextUnk
		ng.free = true
	}
	ng.id = id
	vSch.gs[id] = ng
	vSchedLog("spawn g%d by g%d (#%d) free=%v", id, g.id, g.spawnN, ng.free)
	return id
}

func vSpawnSkip(n int) {
	if g := vSelf(); g != nil {
		vSch.mu.Lock()
		g.spawnN += uint32(n)
		vSch.mu.Unlock()
	}
}

func vEnter(id uint32) {
	if id == 0 || !vSch.on {
		return
	}
	vSch.mu.Lock()
	if g := vSch.gs[id]; g != nil {
		vSch.byGoid[vGoid()] = g
	}
	vSch.mu.Unlock()
}

func vLeave() {
	if !vSch.on {
		return
	}
	id := vGoid()
	vSch.mu.Lock()
	if g := vSch.byGoid[id]; g != nil {
		g.done, g.waiting = true, false
		delete(vSch.byGoid, id)
	}
	vSch.mu.Unlock()
	select {
	case vSch.arrived <- struct{}{}:
	default:
	}
}

// ---- controller ----

func vEffSite(s *vSchedStep) string {
	if s.Stub {
		return s.Caller
	}
	return s.Site
}

// vAwait waits until g is at a yield point or has finished; false on timeout.
func vAwait(g *vGor, d time.Duration) bool {
	deadline := time.Now().Add(d)
	for {
		vSch.mu.Lock()
		ok := g.waiting || g.done
		vSch.mu.Unlock()
		if ok {
			return true
		}
		left := time.Until(deadline)
		if left <= 0 {
			return false
		}
		if left > 2*time.Millisecond {
			left = 2 * time.Millisecond
		}
		select {
		case <-vSch.arrived:
		case <-time.After(left):
		}
	}
}

func vGrant(g *vGor, c int) {
	vSch.mu.Lock()
	g.waiting = false
	g.lastSite = g.site
	vSch.mu.Unlock()
	g.wake <- c
}

func vSchedController() {
	const settle = 400 * time.Millisecond
	const reach = 3 * time.Second
	steps := vSch.steps
	skipped, extra, granted, blockedN := 0, 0, 0, 0
	// matches: is site the position of one of the next engine steps of goroutine gid?
	matches := func(i int, gid uint32, site string) bool {
		n := 0
		for j := i; j < len(steps) && n < 12; j++ {
			if steps[j].G == gid {
				n++
				if vEffSite(&steps[j]) == site {
					return true
				}
			}
			if steps[j].Partner == gid {
				n++
				if steps[j].PSite == site {
					return true
				}
			}
		}
		return false
	}
	// advance: the engine's goroutine runs on until its next *engine-visible* operation; pass
	// the native yield points in between (operations the engine treats as invisible)
	advance := func(i int, g *vGor, d time.Duration) {
		for k := 0; k < 64; k++ {
			if !vAwait(g, d) {
				return
			}
			vSch.mu.Lock()
			done, site := g.done, g.site
			vSch.mu.Unlock()
			if done || matches(i, g.id, site) {
				return
			}
			extra++
			vSchedLog("g%d: passing native yield point %s (no engine step)", g.id, site)
			vGrant(g, vFree)
		}
	}
	for i := range steps {
		s := &steps[i]
		vSch.mu.Lock()
		g := vSch.gs[s.G]
		vSch.mu.Unlock()
		if g == nil {
			// not started yet? its parent has to run on to the go statement
			if k, ok := vSch.gidsRev[s.G]; ok {
				vSch.mu.Lock()
				pg := vSch.gs[k[0]]
				vSch.mu.Unlock()
				if pg != nil {
					advance(i, pg, settle)
					vSch.mu.Lock()
					g = vSch.gs[s.G]
					vSch.mu.Unlock()
				}
			}
		}
		if g == nil {
			skipped++ // an engine-only goroutine (timer / environment model)
			vSchedLog("step %d g%d %s@%s: no such goroutine natively, skipped", i, s.G, s.Kind, s.Site)
			continue
		}
		eff := vEffSite(s)
		advance(i, g, reach)
		if !vAwait(g, 0) {
			// still inside an operation granted earlier (blocked natively, or the second
			// phase of a writer lock)
			vSch.mu.Lock()
			same := g.lastSite == eff
			vSch.mu.Unlock()
			if !same {
				blockedN++
			}
			vSchedLog("step %d g%d %s@%s: goroutine not at a yield point (inside %s)", i, s.G, s.Kind, eff, g.lastSite)
			continue
		}
		vSch.mu.Lock()
		done, site := g.done, g.site
		vSch.mu.Unlock()
		if done {
			skipped++
			vSchedLog("step %d g%d %s@%s: goroutine has finished, skipped", i, s.G, s.Kind, eff)
			continue
		}
		if site != eff {
			// the engine's step has no native yield point (stub code, second lock phase)
			skipped++
			vSchedLog("step %d g%d %s@%s: no native yield point (goroutine is at %s), skipped", i, s.G, s.Kind, eff, site)
			continue
		}
		c := vFree
		if s.Kind == "select" {
			c = s.Case
		}
		var pg *vGor
		if s.Partner != 0 {
			vSch.mu.Lock()
			pg = vSch.gs[s.Partner]
			vSch.mu.Unlock()
			if pg != nil {
				advance(i, pg, reach)
				vSch.mu.Lock()
				pok := pg.waiting && pg.site == s.PSite
				vSch.mu.Unlock()
				if pok {
					vGrant(pg, s.PCase)
				} else {
					vSchedLog("step %d: partner g%d is not at %s", i, s.Partner, s.PSite)
					pg = nil
				}
			}
		}
		vSchedLog("step %d grant g%d %s@%s case=%d partner=%d", i, s.G, s.Kind, eff, c, s.Partner)
		vGrant(g, c)
		granted++
		if s.Kind == "wlock-announce" {
			// the real Lock may block until the readers have left: the acquire step follows
			vAwait(g, 20*time.Millisecond)
		} else {
			if !vAwait(g, settle) {
				blockedN++
				vSchedLog("step %d g%d: did not come back within %v", i, s.G, settle)
			}
			advance(i+1, g, settle)
		}
		if pg != nil {
			advance(i+1, pg, settle)
		}
	}
	// the goroutine of the last step runs into the failure; give it a moment, then let
	// everything go
	if g1 := vSch.gs[1]; g1 != nil {
		vAwait(g1, 150*time.Millisecond)
	}
	defer close(vSch.finished)
	fmt.Printf("VERIF-SCHED steps=%d granted=%d skipped=%d extra=%d blocked=%d\n", len(steps), granted, skipped, extra, blockedN)
	vSchedRelease()
}

// vSchedRelease ends the controlled phase: every goroutine runs free from now on.
func vSchedRelease() {
	vSch.mu.Lock()
	vSch.on = false
	var ws []*vGor
	for _, g := range vSch.gs {
		if g.waiting {
			g.waiting = false
			ws = append(ws, g)
		}
	}
	vSch.mu.Unlock()
	for _, g := range ws {
		select {
		case g.wake <- vFree:
		default:
		}
	}
}
