//go:build verif

package gorums

import (
	"context"
	"errors"

	"google.golang.org/grpc/codes"
	"google.golang.org/grpc/status"
	"google.golang.org/protobuf/reflect/protoreflect"
)

// Shared workload machinery for the full-stack harnesses (C03 client half, C05, C06 one-way,
// C08, C09, C10, C12, C18).

const (
	ckRPC = iota
	ckQC
	ckAsync
	ckCorrectable
	ckCorrStream
	ckMulticast
	ckMulticastNoWait
	ckUnicast
	ckUnicastNoWait
	ckN
)

var ckNames = [...]string{"rpc", "quorumcall", "async", "correctable", "correctable-stream", "multicast", "multicast-nowait", "unicast", "unicast-nowait"}

func ckOneWay(k int) bool    { return k >= ckMulticast }
func ckNodeLevel(k int) bool { return k == ckRPC || k == ckUnicast || k == ckUnicastNoWait }

// fsCall is the ghost record of one issued call.
type fsCall struct {
	kind           int
	tag            int
	req            *vMsg
	ctx            context.Context
	cancel         context.CancelFunc
	issued         bool // the invocation returned (sync) / the future was handed out (async, correctable)
	returned       bool // the result is available (sync: same as issued)
	resp           protoreflect.ProtoMessage
	err            error
	ctxErrAtReturn bool
	// what the call observed
	seen      map[uint32]protoreflect.ProtoMessage
	seenCount map[uint32]int
	quorumOn  int // quorum function reports quorum when it has this many replies (0 = never)
	fut       *Async
	corr      *Correctable
	// perNode: configuration-level calls go through the per-node-argument path (the function
	// hands every node the request itself, so payload identities stay what they are)
	perNode bool
}

func fsNewCall(kind, tag, quorumOn int) *fsCall {
	ctx, cancel := context.WithCancel(context.Background())
	return &fsCall{kind: kind, tag: tag, req: &vMsg{tok: 100 + tag}, ctx: ctx, cancel: cancel, quorumOn: quorumOn,
		seen: map[uint32]protoreflect.ProtoMessage{}, seenCount: map[uint32]int{}}
}

func (c *fsCall) qf(r protoreflect.ProtoMessage, replies map[uint32]protoreflect.ProtoMessage) (protoreflect.ProtoMessage, bool) {
	vAssert(r == protoreflect.ProtoMessage(c.req), "C01.qf-request-identity")
	for id, m := range replies {
		if c.seen[id] != m {
			c.seen[id] = m
			c.seenCount[id]++
		}
	}
	if c.quorumOn > 0 && len(replies) >= c.quorumOn {
		return &vMsg{tok: 7000 + c.tag}, true
	}
	return nil, false
}

func (c *fsCall) cqf(r protoreflect.ProtoMessage, replies map[uint32]protoreflect.ProtoMessage) (protoreflect.ProtoMessage, int, bool) {
	out, q := c.qf(r, replies)
	return out, len(replies), q
}

// fsRun performs the call on the world; node-level calls go to node 0 (the full-stack node).
func (c *fsCall) run(w *vWorld, cfg RawConfiguration) {
	method := "verif." + ckNames[c.kind]
	qd := QuorumCallData{Message: c.req, Method: method, QuorumFunction: c.qf}
	cd := CorrectableCallData{Message: c.req, Method: method, QuorumFunction: c.cqf, ServerStream: c.kind == ckCorrStream}
	if c.perNode {
		qd.PerNodeArgFn = func(r protoreflect.ProtoMessage, id uint32) protoreflect.ProtoMessage { return r }
		cd.PerNodeArgFn = qd.PerNodeArgFn
	}
	switch c.kind {
	case ckRPC:
		resp, err := w.nodes[0].RPCCall(c.ctx, CallData{Message: c.req, Method: method})
		c.ctxErrAtReturn = c.ctx.Err() != nil
		c.resp, c.err, c.issued, c.returned = resp, err, true, true
		if err == nil {
			c.seen[w.nodes[0].id] = resp
			c.seenCount[w.nodes[0].id]++
		}
	case ckQC:
		resp, err := cfg.QuorumCall(c.ctx, qd)
		c.ctxErrAtReturn = c.ctx.Err() != nil
		c.resp, c.err, c.issued, c.returned = resp, err, true, true
	case ckAsync:
		c.fut = cfg.AsyncCall(c.ctx, qd)
		c.issued = true
		go func() {
			resp, err := c.fut.Get()
			c.ctxErrAtReturn = c.ctx.Err() != nil
			c.resp, c.err, c.returned = resp, err, true
		}()
	case ckCorrectable, ckCorrStream:
		// (region marker: the wedge F-C09-stream needs a server-stream correctable call)
		vKnown("R-corrstream", c.kind == ckCorrStream)
		c.corr = cfg.CorrectableCall(c.ctx, cd)
		c.issued = true
		go func() {
			<-c.corr.Done()
			resp, _, err := c.corr.Get()
			c.ctxErrAtReturn = c.ctx.Err() != nil
			c.resp, c.err, c.returned = resp, err, true
		}()
	case ckMulticast:
		cfg.Multicast(c.ctx, qd)
		c.issued, c.returned = true, true
	case ckMulticastNoWait:
		cfg.Multicast(c.ctx, qd, WithNoSendWaiting())
		c.issued, c.returned = true, true
	case ckUnicast:
		w.nodes[0].Unicast(c.ctx, CallData{Message: c.req, Method: method})
		c.issued, c.returned = true, true
	case ckUnicastNoWait:
		w.nodes[0].Unicast(c.ctx, CallData{Message: c.req, Method: method}, WithNoSendWaiting())
		c.issued, c.returned = true, true
	}
}

// fsIsCtxErr: the error matches the context's error under errors.Is.
func fsIsCtxErr(err error, ctx context.Context) bool {
	return ctx.Err() != nil && errors.Is(err, ctx.Err())
}

// fsIsNodeFailureReport: the error reports failed nodes (Incomplete with node errors, or a
// connection-level status error of an RPC) rather than the context's end.
func fsIsNodeFailureReport(err error) bool {
	if qe, ok := err.(QuorumCallError); ok {
		return qe.cause == Incomplete && len(qe.errors) > 0
	}
	if st, ok := status.FromError(err); ok {
		return st.Code() == codes.Unavailable || st.Code() == codes.Canceled
	}
	return false
}

// routersLeft counts the routing entries on all nodes of the world.
func (w *vWorld) routersLeft() int {
	n := 0
	for _, nd := range w.nodes {
		if nd.channel != nil {
			n += vRouters(nd)
		}
	}
	return n
}

// answerAll: the full-stack peer answers every arrived message (healthy, stamped), in order.
func fsAnswerArrived(p *vPeer, max int) int {
	n := 0
	for k := 0; k < max; k++ {
		a := p.take()
		if a == nil {
			break
		}
		p.reply(a, vStamp(p, a, n), nil)
		n++
	}
	return n
}
