//go:build verif

package gorums

// C03 (client half) — per-node FIFO: for every program of K calls of mixed types issued from
// one goroutine, the order in which the requests are written to node n's stream equals the
// order in which the calls were issued; each request is written at most once, and all of them
// when nothing is cancelled or broken.
//
// World: 1 full-stack node (scripted peer: replies at once) + 1 thin node that never answers
// (so two-way calls return on the first reply while a straggler is still queued). Symbolic:
// the call type of every call (all 9), send-buffer size; all interleavings of the issuer, the
// sender, receiver, watcher and future/correctable handler goroutines. kindsA selects the
// programs: 0 all types, 1 representative later calls, 2 bursts of no-send-waiting calls, 3 a
// call with a per-node argument function followed by plain calls, 4 quorum-type calls whose
// quorum the OTHER node completes while this node's request is still queued.

func VerifC03Client(ncalls, sendBuffer, kindsA int) {
	var opts []ManagerOption
	if sendBuffer > 0 {
		opts = append(opts, WithSendBufferSize(uint(sendBuffer)))
	}
	w := vMixed(1, 0, nil, opts...)
	// the thin node gets a queue that can hold every request (it never answers)
	thin := vThinNode(w.mgr, 2, ncalls)
	w.nodes = append(w.nodes, thin)
	w.peers = append(w.peers, nil)
	cfg, err := NewRawConfiguration(w.mgr, WithNodeIDs([]uint32{1, 2}))
	vAssert(err == nil, "C14.withnodeids")
	w.cfg = cfg
	p := w.peers[0]
	p.behave = func(p *vPeer, x *vArrived) {
		if r, ok := x.msg.Message.(*vMsg); ok && r.tok < 200 {
			p.reply(x, vStamp(p, x, 1), nil)
		}
	}
	calls := make([]*fsCall, ncalls)
	done := false
	// the thin node records what is queued to it, confirms one-way sends (what sendMsg does
	// after the write) and never answers two-way requests
	var thinOrder []*vMsg
	go func() {
		for k := 0; k < ncalls; k++ {
			r := <-thin.channel.sendQ
			thinOrder = append(thinOrder, r.msg.Message.(*vMsg))
			if r.waitForSend() {
				thin.channel.routeResponse(r.msg.Metadata.MessageID, response{})
			} else if kindsA == 4 && r.opts.callType == nil {
				// mode 4: the thin node ANSWERS two-way requests at once, so that a call may
				// reach its quorum while the full-stack node's request is still in its send
				// queue (send buffer): that request must be written all the same
				thin.channel.routeResponse(r.msg.Metadata.MessageID, response{nid: thin.id, msg: &vMsg{tok: 900 + k}})
			}
		}
	}()
	go func() {
		for k := 0; k < ncalls; k++ {
			kind := vChoice("calltype", ckN)
			if kindsA == 1 && k > 0 && (kind == ckAsync || kind == ckCorrStream || kind == ckMulticast || kind == ckUnicast) {
				vAssume(false) // quick tier: the later calls range over 5 representative types
			}
			if kindsA == 2 {
				// burst mode: no-send-waiting one-way calls followed by a call of another kind
				if k < ncalls-1 && kind != ckMulticastNoWait && kind != ckUnicastNoWait {
					vAssume(false)
				}
				if k == ncalls-1 && kind != ckRPC && kind != ckQC && kind != ckUnicast {
					vAssume(false)
				}
			}
			if kindsA == 4 && kind != ckQC && kind != ckAsync && kind != ckCorrectable && kind != ckRPC {
				vAssume(false) // mode 4: calls that end on a quorum (and RPCs between them)
			}
			calls[k] = fsNewCall(kind, k+1, 1)
			if kindsA == 3 {
				// per-node mode: a configuration-level call with a per-node argument function,
				// followed by plain calls of three representative types
				if k == 0 && (ckNodeLevel(kind) || kind == ckCorrStream) {
					vAssume(false)
				}
				if k > 0 && kind != ckRPC && kind != ckQC && kind != ckUnicast {
					vAssume(false)
				}
				calls[k].perNode = k == 0
			}
			if ckOneWay(kind) {
				calls[k].req.tok = 200 + k + 1 // one-way: the scripted handler sends no reply
			}
			calls[k].run(w, cfg)
		}
		done = true
	}()
	vFreezeEnv()
	vQuiescent()
	vAssert(done, "C03.issuer-blocked")
	// wire order at the full-stack node == issue order
	next := 0
	for _, m := range p.wire {
		r := m.Message.(*vMsg)
		k := r.tok%100 - 1
		vAssert(k >= next, "C03.client-order-on-the-wire")
		vAssert(k < ncalls && calls[k].req == r, "C06.payload")
		if k == next {
			next++
		} else {
			vFail("C03.request-missing-on-the-wire")
		}
	}
	vAssert(next == ncalls, "C03.request-not-written")
	// queue order at the thin node == issue order (configuration-level calls only)
	expect := 0
	for _, r := range thinOrder {
		for expect < ncalls && ckNodeLevel(calls[expect].kind) {
			expect++
		}
		vAssert(expect < ncalls && r == calls[expect].req, "C03.client-order-in-the-queue")
		expect++
	}
	for expect < ncalls && ckNodeLevel(calls[expect].kind) {
		expect++
	}
	vAssert(expect == ncalls, "C03.request-not-queued")
	for k := 0; k < ncalls; k++ {
		vAssert(calls[k].issued, "C03.call-not-issued")
		vReach("calltype-" + ckNames[calls[k].kind])
	}
}

func VerifC03ClientTwin(ncalls, sendBuffer, kindsA int) {
	VerifC03Client(ncalls, sendBuffer, kindsA)
	vFail("C03.twin")
}
