//go:build verif

package gorums

import (
	"context"
	"errors"
	"net"
	"sync"
	"time"

	spb "google.golang.org/genproto/googleapis/rpc/status"
	"google.golang.org/grpc/codes"
	"google.golang.org/grpc/status"
	"google.golang.org/protobuf/proto"

	"github.com/relab/gorums/ordering"
)

// Stubs: Go models of environment functions. The engine redirects calls of the function
// named in a //verif:stub directive to the stub below it; the native build ignores the
// directives and calls the real functions (so every native replay also validates the stubs).
//
// Opaque constructors: pure constructors of option/handle values the library never looks
// into; the engine returns an opaque non-nil value.
//
//verif:opaque google.golang.org/grpc.WithDefaultCallOptions
//verif:opaque google.golang.org/grpc.CallContentSubtype
//verif:opaque google.golang.org/grpc.WithConnectParams
//verif:opaque google.golang.org/grpc.WithTransportCredentials
//verif:opaque google.golang.org/grpc.WithBlock
//verif:opaque google.golang.org/grpc.WithReturnConnectionError
//verif:opaque google.golang.org/grpc/credentials/insecure.NewCredentials
//verif:opaque google.golang.org/grpc.NewServer
//verif:opaque google.golang.org/grpc/encoding.RegisterCodec
//verif:opaque github.com/relab/gorums/ordering.RegisterGorumsServer

// ---------------------------------------------------------------------------
// net

var vErrMissingPort = errors.New("missing port in address")

// Contract: canonical literal "host:port" strings (no brackets, no zone); the last colon
// separates host and port.
//
//verif:stub net.SplitHostPort
func vstubSplitHostPort(hostport string) (host, port string, err error) {
	for i := len(hostport) - 1; i >= 0; i-- {
		if hostport[i] == ':' {
			return hostport[:i], hostport[i+1:], nil
		}
	}
	return "", "", vErrMissingPort
}

// Contract: identity on canonical "ip:port" literals supplied by the harness. The address
// text is carried in the Zone field of the returned TCPAddr and handed back by String.
//
//verif:stub net.ResolveTCPAddr
func vstubResolveTCPAddr(network, address string) (*net.TCPAddr, error) {
	if len(address) == 0 {
		return nil, vErrMissingPort
	}
	if address == "[::ffff:10.0.0.3]:1003" {
		// a second spelling of an address (IPv4-mapped literal): resolves to the plain form,
		// as the real resolver does
		address = "10.0.0.3:1003"
	}
	return &net.TCPAddr{Zone: address}, nil
}

//verif:stub (*net.TCPAddr).String
func vstubTCPAddrString(a *net.TCPAddr) string {
	if a == nil {
		return "<nil>"
	}
	return a.Zone
}

// ---------------------------------------------------------------------------
// context: a cancel tree with eagerly created Done channels. Every operation that touches
// shared state is one atomic engine transition (vAtomic ... vAtomicEnd).

// vCtxTree is the registry of one cancel tree: every operation on a tree is one engine
// transition declared on the tree object (vAtomic kind 3 = the tree plus every channel
// reachable from it, i.e. all Done channels of the tree).
type vCtxTree struct {
	nodes []*vCtx
}

type vCtx struct {
	tree     *vCtxTree
	parent   context.Context
	done     chan struct{} // nil for value contexts over a never-cancelled parent
	err      error
	children []*vCtx
	isValue  bool
	key, val interface{}
}

func (c *vCtx) Deadline() (time.Time, bool) { return time.Time{}, false }

func (c *vCtx) Done() <-chan struct{} { return c.done }

func (c *vCtx) Err() error {
	if c.isValue {
		return c.parent.Err()
	}
	vAtomic(0, c.tree)
	e := c.err
	vAtomicEnd()
	return e
}

func (c *vCtx) Value(key interface{}) interface{} {
	if c.isValue && c.key == key {
		return c.val
	}
	return c.parent.Value(key)
}

func (c *vCtx) cancel(err error) {
	vAtomic(3, c.tree)
	c.cancelLocked(err, true)
	vAtomicEnd()
}

func (c *vCtx) cancelLocked(err error, detach bool) {
	if c.err != nil {
		return
	}
	c.err = err
	close(c.done)
	for _, ch := range c.children {
		ch.cancelLocked(err, false)
	}
	c.children = nil
	if detach {
		if p := vCancelParent(c.parent); p != nil {
			for i, x := range p.children {
				if x == c {
					p.children = append(append([]*vCtx{}, p.children[:i]...), p.children[i+1:]...)
					break
				}
			}
		}
	}
}

// vCancelParent finds the nearest cancelable vCtx ancestor.
func vCancelParent(p context.Context) *vCtx {
	for {
		c, ok := p.(*vCtx)
		if !ok {
			return nil
		}
		if !c.isValue {
			return c
		}
		p = c.parent
	}
}

func vNewCancelCtx(parent context.Context) *vCtx {
	c := &vCtx{parent: parent, done: make(chan struct{})}
	if p := vCancelParent(parent); p != nil {
		c.tree = p.tree
		vAtomic(3, c.tree)
		c.tree.nodes = append(c.tree.nodes, c)
		if p.err != nil {
			c.cancelLocked(p.err, false)
		} else {
			p.children = append(p.children, c)
		}
		vAtomicEnd()
		return c
	}
	c.tree = &vCtxTree{nodes: []*vCtx{c}}
	if pd := parent.Done(); pd != nil {
		// foreign cancelable parent: watch it (as the real package does)
		go func() {
			select {
			case <-pd:
				c.cancel(parent.Err())
			case <-c.done:
			}
		}()
	}
	return c
}

//verif:stub context.WithCancel
func vstubWithCancel(parent context.Context) (context.Context, context.CancelFunc) {
	c := vNewCancelCtx(parent)
	return c, func() { c.cancel(context.Canceled) }
}

// Deadlines are environment events: the timer may fire at any scheduling point while the
// environment is not frozen.
//
//verif:stub context.WithTimeout
func vstubWithTimeout(parent context.Context, d time.Duration) (context.Context, context.CancelFunc) {
	c := vNewCancelCtx(parent)
	go func() {
		select {
		case <-vEnvTick():
			c.cancel(context.DeadlineExceeded)
		case <-c.done:
		}
	}()
	return c, func() { c.cancel(context.Canceled) }
}

//verif:stub context.WithDeadline
func vstubWithDeadline(parent context.Context, t time.Time) (context.Context, context.CancelFunc) {
	return vstubWithTimeout(parent, 0)
}

//verif:stub context.WithValue
func vstubWithValue(parent context.Context, key, val interface{}) context.Context {
	c := &vCtx{parent: parent, done: vDoneOf(parent), isValue: true, key: key, val: val}
	if p, ok := parent.(*vCtx); ok {
		c.tree = p.tree
	}
	return c
}

func vDoneOf(p context.Context) chan struct{} {
	if c, ok := p.(*vCtx); ok {
		return c.done
	}
	return nil // Background/TODO
}

// ---------------------------------------------------------------------------
// time

// vTimerBudget bounds the number of time.After timers that may fire on one path (an
// unreachable peer makes reconnect retry forever otherwise); a timer beyond the budget never
// fires. The bound is part of every full-stack check's stated bounds.
var (
	vTimerBudget = 2
	vTimersFired = 0
	// vTimerStarved: a timer was due after the budget was used up (ghost; the harness may
	// discard such a path as outside the bound instead of judging it)
	vTimerStarved = false
)

//verif:stub time.After
func vstubTimeAfter(d time.Duration) <-chan time.Time {
	ch := make(chan time.Time, 1)
	go func() {
		<-vEnvTick()
		vAtomic(1, &vTimersFired)
		if vTimersFired >= vTimerBudget {
			vTimerStarved = true
			vAtomicEnd()
			select {} // budget exhausted: never fires
		}
		vTimersFired++
		vAtomicEnd()
		ch <- time.Time{}
	}()
	return ch
}

// ---------------------------------------------------------------------------
// errors / status / proto

func vComparable(x interface{}) bool { return true } // engine: types.Comparable(dynamic type)

//verif:stub errors.Is
func vstubErrorsIs(err, target error) bool {
	if err == nil || target == nil {
		return err == target
	}
	isComparable := vComparable(target)
	for {
		if isComparable && err == target {
			return true
		}
		if x, ok := err.(interface{ Is(error) bool }); ok && x.Is(target) {
			return true
		}
		switch x := err.(type) {
		case interface{ Unwrap() error }:
			err = x.Unwrap()
			if err == nil {
				return false
			}
		case interface{ Unwrap() []error }:
			for _, e := range x.Unwrap() {
				if vstubErrorsIs(e, target) {
					return true
				}
			}
			return false
		default:
			return false
		}
	}
}

// status.FromError with errors.As (reflection) replaced by an Unwrap loop.
//
//verif:stub google.golang.org/grpc/status.FromError
func vstubStatusFromError(err error) (*status.Status, bool) {
	if err == nil {
		return nil, true
	}
	type grpcstatus interface{ GRPCStatus() *status.Status }
	if gs, ok := err.(grpcstatus); ok {
		st := gs.GRPCStatus()
		if st == nil {
			return status.New(codes.Unknown, err.Error()), false
		}
		return st, true
	}
	for e := err; e != nil; {
		u, ok := e.(interface{ Unwrap() error })
		if !ok {
			break
		}
		e = u.Unwrap()
		if gs, ok := e.(grpcstatus); ok {
			st := gs.GRPCStatus()
			if st == nil {
				return status.New(codes.Unknown, err.Error()), false
			}
			p := st.Proto()
			p.Message = err.Error()
			return status.FromProto(p), true
		}
	}
	return status.New(codes.Unknown, err.Error()), false
}

// proto.Clone on the two message types the library clones: field copy.
//
//verif:stub google.golang.org/protobuf/proto.Clone
func vstubProtoClone(m proto.Message) proto.Message {
	switch x := m.(type) {
	case *spb.Status:
		if x == nil {
			return x
		}
		return &spb.Status{Code: x.Code, Message: x.Message, Details: x.Details}
	case *ordering.Metadata:
		if x == nil {
			return x
		}
		return &ordering.Metadata{MessageID: x.MessageID, Method: x.Method, Status: x.Status}
	}
	panic("verif: proto.Clone of unsupported message type")
}

// sync.Map.Range: iterates over a snapshot taken in one atomic transition (one of the
// behaviours the documentation allows: every key is visited at most once; entries stored or
// deleted concurrently may or may not be seen).
//
//verif:stub (*sync.Map).Range?
func vstubSyncMapRange(m *sync.Map, f func(key, value interface{}) bool) {
	snap := vSyncMapSnapshot(m)
	for i := 0; i+1 < len(snap); i += 2 {
		if !f(snap[i], snap[i+1]) {
			break
		}
	}
}

// vLiveChildren: the number of contexts derived from ctx (directly, with a cancel function)
// that have not been cancelled yet - what the real context package keeps registered in the
// parent until the child is cancelled. Only meaningful in the engine (0 natively).
func vLiveChildren(ctx context.Context) int {
	if !vIsEngine() {
		return 0
	}
	p := vCancelParent(ctx)
	if p == nil {
		return 0
	}
	vAtomic(0, p.tree)
	n := len(p.children)
	vAtomicEnd()
	return n
}
