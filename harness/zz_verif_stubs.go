//go:build verif

package gorums

import (
	"errors"
)

// Stubs: Go models of environment functions. The engine redirects calls of the function
// named in the //verif:stub directive to the stub; the native build ignores the directive
// and calls the real function (so every native replay also validates the stub).

var vErrMissingPort = errors.New("missing port in address")

// Contract: canonical literal "host:port" strings (no brackets, no zone); the last colon
// separates host and port.
//
//verif:stub net.SplitHostPort
func vstubSplitHostPort(hostport string) (host, port string, err error) {
	for i := len(hostport) - 1; i >= 0; i-- {
		if hostport[i] == ':' {
			return hostport[:i], hostport[i+1:], nil
		}
	}
	return "", "", vErrMissingPort
}
