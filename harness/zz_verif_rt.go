//go:build verif

package gorums

// Harness runtime: the v* primitives. The engine (symgo) intercepts every function in this
// file whose name starts with "v" and is listed in its primitive table; the bodies below are
// the *native* semantics used when a counterexample is replayed (or random vectors are
// cross-checked) against the real build with `go test -tags verif -overlay ...`.

import (
	"encoding/json"
	"fmt"
	"math/rand"
	"os"
	"runtime"
	"sort"
	"strings"
	"sync"
	"time"
)

type vReplayTable struct {
	// Values: base name -> values in draw order
	Values map[string][]uint64 `json:"values"`
	// Choices: base name -> choices in path order
	Choices map[string][]int `json:"choices"`
	// Strings: base name -> byte strings
	Strings map[string][]string `json:"strings"`
	// UF: "name(args)" -> value
	UF map[string]uint64 `json:"uf"`
}

var (
	vMu       sync.Mutex
	vTable    *vReplayTable
	vRand     *rand.Rand
	vFailed   []string
	vReached  = map[string]int{}
	vObserved []string
	vKnownSet = map[string]bool{}
	vSkipped  bool // an assumption failed somewhere: the vector is outside the harness's domain
)

type vStop struct{ id string }

// VerifNativeInit prepares a native run: replay table from VERIF_REPLAY (json file) or a
// random vector from VERIF_SEED.
func VerifNativeInit() {
	vMu.Lock()
	defer vMu.Unlock()
	vTable = &vReplayTable{Values: map[string][]uint64{}, Choices: map[string][]int{}, Strings: map[string][]string{}, UF: map[string]uint64{}}
	vFailed, vObserved = nil, nil
	vReached = map[string]int{}
	vKnownSet = map[string]bool{}
	vSkipped = false
	if p := os.Getenv("VERIF_REPLAY"); p != "" {
		b, err := os.ReadFile(p)
		if err != nil {
			panic(err)
		}
		if err := json.Unmarshal(b, vTable); err != nil {
			panic(err)
		}
	}
	seed := int64(1)
	fmt.Sscan(os.Getenv("VERIF_SEED"), &seed)
	vRand = rand.New(rand.NewSource(seed))
	// goroutines left behind by earlier vectors of the same process (a vector that left its
	// domain is abandoned mid-way) must not count in this vector's census
	vBaselineGoroutines = map[string]bool{}
	buf := make([]byte, 1<<20)
	n := runtime.Stack(buf, true)
	for _, g := range strings.Split(string(buf[:n]), "\n\n") {
		if i := strings.Index(g, " ["); i > 0 {
			vBaselineGoroutines[g[:i]] = true
		}
	}
}

var vBaselineGoroutines map[string]bool

// VerifNativeRun runs a harness natively and reports the assertion ids that failed.
func VerifNativeRun(f func()) (failed []string, panicked interface{}) {
	done := make(chan struct{})
	go func() {
		defer close(done)
		defer func() {
			if r := recover(); r != nil {
				if _, ok := r.(vStop); !ok {
					panicked = r
				}
			}
		}()
		if vSchedStartHook != nil {
			vSchedStartHook() // schedule replay: this goroutine is the harness main goroutine
		}
		f()
	}()
	start := time.Now()
	var skippedAt time.Time
wait:
	for {
		select {
		case <-done:
			break wait
		case <-time.After(50 * time.Millisecond):
		}
		vMu.Lock()
		sk := vSkipped
		vMu.Unlock()
		if sk {
			if skippedAt.IsZero() {
				skippedAt = time.Now()
			} else if time.Since(skippedAt) > time.Second {
				break wait // the harness left its domain and its main goroutine is stuck
			}
		}
		if time.Since(start) > 60*time.Second {
			vMu.Lock()
			defer vMu.Unlock()
			return append([]string{}, vFailed...), "native run did not finish within 60 s"
		}
	}
	if vSchedEndHook != nil {
		vSchedEndHook() // schedule replay: let the controller print its report
	}
	vMu.Lock()
	defer vMu.Unlock()
	return append([]string{}, vFailed...), panicked
}

func VerifNativeObservations() []string {
	vMu.Lock()
	defer vMu.Unlock()
	return append([]string{}, vObserved...)
}

func vDraw(name string, bits uint) uint64 {
	vMu.Lock()
	defer vMu.Unlock()
	if vTable == nil {
		panic("verif: native run without VerifNativeInit")
	}
	if q := vTable.Values[name]; len(q) > 0 {
		vTable.Values[name] = q[1:]
		return q[0]
	}
	if os.Getenv("VERIF_REPLAY") != "" {
		return 0 // unconstrained by the counterexample
	}
	v := vRand.Uint64()
	if bits < 64 {
		v &= (uint64(1) << bits) - 1
	}
	return v
}

func vBool(name string) bool     { return vDraw(name, 1)&1 == 1 }
func vInt(name string) int       { return int(vDraw(name, 64)) }
func vUint64(name string) uint64 { return vDraw(name, 64) }
func vUint32(name string) uint32 { return uint32(vDraw(name, 32)) }
func vInt32(name string) int32   { return int32(vDraw(name, 32)) }
func vByte(name string) byte     { return byte(vDraw(name, 8)) }

// vRange returns a value in [lo, hi].
func vRange(name string, lo, hi int) int {
	vMu.Lock()
	replay := vTable != nil && len(vTable.Values[name]) > 0
	vMu.Unlock()
	v := int(int64(vDraw(name, 64)))
	if replay {
		return v
	}
	if os.Getenv("VERIF_REPLAY") != "" {
		return lo
	}
	span := hi - lo + 1
	if v < 0 {
		v = -v
	}
	if v < 0 {
		v = 0
	}
	return lo + v%span
}

// vChoice returns a value in [0, n): the engine forks over all of them.
func vChoice(name string, n int) int {
	vMu.Lock()
	defer vMu.Unlock()
	if q := vTable.Choices[name]; len(q) > 0 {
		vTable.Choices[name] = q[1:]
		return q[0]
	}
	if os.Getenv("VERIF_REPLAY") != "" {
		return 0
	}
	return vRand.Intn(n)
}

// vAssume: native runs skip vectors that violate an assumption. The calling goroutine ends
// (it may be any goroutine of the harness); later assertion failures of the run are ignored.
func vAssume(cond bool) {
	if !cond {
		vMu.Lock()
		vSkipped = true
		vMu.Unlock()
		runtime.Goexit()
	}
}

// VerifNativeSkipped reports whether the last native run left the harness's domain.
func VerifNativeSkipped() bool {
	vMu.Lock()
	defer vMu.Unlock()
	return vSkipped
}

func vAssert(cond bool, id string) {
	if cond {
		return
	}
	vFail(id)
}

func vFail(id string) {
	vMu.Lock()
	if vSkipped {
		vMu.Unlock()
		runtime.Goexit()
	}
	if len(vKnownSet) > 0 {
		// inside the region of a known finding: reported separately, not a failure of the run
		ids := ""
		for k := range vKnownSet {
			ids += k + " "
		}
		vMu.Unlock()
		fmt.Printf("VERIF-KNOWN %s: %s\n", ids, id)
		runtime.Goexit()
	}
	vFailed = append(vFailed, id)
	vMu.Unlock()
	fmt.Printf("VERIF-ASSERT-FAILED %s\n", id)
	runtime.Goexit()
}

func vReach(label string) {
	vMu.Lock()
	vReached[label]++
	vMu.Unlock()
}

// vKnown marks the path as lying inside the region of a known finding.
func vKnown(id string, cond bool) bool {
	// only findings that are still open suppress anything (VERIF_OPEN: their ids); the region
	// of a repaired finding is ordinary territory
	if cond && strings.Contains(","+os.Getenv("VERIF_OPEN")+",", ","+id+",") {
		vMu.Lock()
		vKnownSet[id] = true
		vMu.Unlock()
	}
	return cond
}

// vWatch names a memory word for the failure descriptors of the engine; nothing natively.
func vWatch(name string, p *int32) {}

func vExpectPanic(f func()) (panicked bool) {
	defer func() {
		if r := recover(); r != nil {
			if s, ok := r.(vStop); ok {
				panic(s)
			}
			panicked = true
		}
	}()
	f()
	return false
}

func vObserve(name string, v interface{}) {
	vMu.Lock()
	vObserved = append(vObserved, fmt.Sprintf("%s=%v", name, v))
	vMu.Unlock()
}

func vTrace(msg string) {
	if os.Getenv("VERIF_TRACE") != "" {
		fmt.Println("TRACE", msg)
	}
}

func vIsEngine() bool { return false }

func vConcrete(x int) int { return x }

// vQuiescent: wait until the goroutine population is stable ("everything that can happen
// without the environment has happened").
func vQuiescent() {
	if vYieldHook != nil && vYieldHook(1) {
		return // schedule replay: granted by the controller when the engine's schedule says so
	}
	stable := 0
	last := ""
	deadline := time.Now().Add(3 * time.Second)
	for stable < 4 && time.Now().Before(deadline) {
		time.Sleep(3 * time.Millisecond)
		cur := vGoroutineSig()
		if cur == last {
			stable++
		} else {
			stable = 0
			last = cur
		}
	}
}

func vGoroutineSig() string {
	buf := make([]byte, 1<<20)
	n := runtime.Stack(buf, true)
	gs := strings.Split(string(buf[:n]), "\n\n")
	var sigs []string
	for _, g := range gs {
		lines := strings.Split(g, "\n")
		if len(lines) < 2 {
			continue
		}
		// header "goroutine N [state]:" + top frame
		hdr := lines[0]
		if i := strings.Index(hdr, "["); i >= 0 {
			hdr = hdr[i:]
		}
		if strings.Contains(hdr, "running") || strings.Contains(hdr, "runnable") {
			hdr = "[active]"
		}
		if j := strings.Index(hdr, ","); j >= 0 { // drop "N minutes"
			hdr = hdr[:j] + "]"
		}
		sigs = append(sigs, hdr+lines[1])
	}
	sort.Strings(sigs)
	return strings.Join(sigs, "|")
}

// vNativeSettle: no-op in the engine; natively it settles so that scripted events are
// applied one after the other.
func vNativeSettle() { vQuiescent() }

func vFreezeEnv()   {}
func vUnfreezeEnv() {}
func vYield()       { runtime.Gosched() }

// vEnvTick is only used by engine-side stubs.
func vEnvTick() <-chan struct{} { return nil }

// vAtomic / vAtomicEnd delimit a section the engine executes as one transition.
func vAtomic(kind int, objs ...interface{}) {
	if vYieldHook != nil {
		vYieldHook(1)
	}
}

// hooks of the native schedule replay (zz_verif_sched.go, native builds only)
var (
	vSchedStartHook func() bool
	vSchedEndHook   func()
	vYieldHook      func(skip int) bool
)

func vAtomicEnd() {}

// vLiveGoroutines counts live goroutines created by functions of packages with the prefix
// (harness overlay functions excluded).
func vLiveGoroutines(prefix string) int {
	buf := make([]byte, 1<<20)
	n := runtime.Stack(buf, true)
	cnt := 0
	for _, g := range strings.Split(string(buf[:n]), "\n\n") {
		if j := strings.Index(g, " ["); j > 0 && vBaselineGoroutines[g[:j]] {
			continue // alive before this vector started
		}
		i := strings.LastIndex(g, "created by ")
		if i < 0 {
			continue
		}
		rest := g[i+len("created by "):]
		if !strings.HasPrefix(rest, prefix) {
			continue
		}
		if strings.Contains(rest, "zz_verif_") {
			continue
		}
		cnt++
		if os.Getenv("VERIF_TRACE_LIVE") != "" {
			fmt.Println("TRACE live goroutine:\n" + g)
		}
	}
	return cnt
}

// vRecvMustOffer (engine only; no-op natively): from now on, repository code that takes a value
// off a channel whose element type contains elem while done is closed must do so in a select
// that also offers a receive on done; otherwise the assertion id fails.
func vRecvMustOffer(elem string, done <-chan struct{}, id string) {}

// vSyncMapSnapshot: keys and values of a sync.Map, alternating (natively through Range).
func vSyncMapSnapshot(m *sync.Map) []interface{} {
	var out []interface{}
	m.Range(func(k, v interface{}) bool { out = append(out, k, v); return true })
	return out
}

func vUF32(name string, args ...uint64) uint32 {
	key := name + "("
	for i, a := range args {
		if i > 0 {
			key += ","
		}
		key += fmt.Sprint(a)
	}
	key += ")"
	vMu.Lock()
	defer vMu.Unlock()
	if v, ok := vTable.UF["uf_"+key]; ok {
		return uint32(v)
	}
	// deterministic pseudo-hash for unconstrained applications
	var h uint32 = 2166136261
	for i := 0; i < len(key); i++ {
		h ^= uint32(key[i])
		h *= 16777619
	}
	return h
}

func vSymString(name string, n int) string {
	vMu.Lock()
	if q := vTable.Strings[name]; len(q) > 0 {
		vTable.Strings[name] = q[1:]
		vMu.Unlock()
		return q[0]
	}
	vMu.Unlock()
	b := make([]byte, n)
	for i := range b {
		b[i] = byte(vDraw(fmt.Sprintf("%s[%d]", name, i), 8))
	}
	return string(b)
}

func vBytes(name string) []byte {
	return []byte(vSymString(name, int(vDraw(name+".len", 4))))
}

func vBytesEqual(a, b []byte) bool { return string(a) == string(b) }
