//go:build verif

package gorums

// C08 — every call returns promptly once its context ends, whatever the nodes are doing.
//
// Untimed form: in every reachable state in which the call's context has ended, if the
// environment performs no further action and no timer fires (environment frozen), the system
// reaches quiescence with the call returned (future / correctable completed), and a reported
// error matches the context's error under errors.Is.
//
// World: 1 full-stack node (+ nThin thin nodes that never answer). Symbolic: call type; peer
// behaviour (silent / down / not reading); an optional background RPC with a live context in
// flight on the same node; send-buffer size; the instant of the cancellation (any scheduling
// point: before queuing, queued, being written, awaiting replies).

const (
	c08Silent = iota
	c08Down
	c08NotReading
	c08NPeer
)

func VerifC08(nThin, withBackground, sendBuffer int) {
	if withBackground == 2 {
		verifC08Aftermath(nThin, sendBuffer)
		return
	}
	peerKind := c08NotReading
	if withBackground != 1 {
		peerKind = vChoice("peer", c08NPeer)
	}
	var opts []ManagerOption
	if sendBuffer > 0 {
		opts = append(opts, WithSendBufferSize(uint(sendBuffer)))
	}
	w := vMixed(1, nThin, []bool{peerKind != c08Down}, opts...)
	if peerKind == c08NotReading {
		w.peers[0].stopReading()
	}
	var bg *fsCall
	if withBackground == 1 {
		// a background RPC with a live context whose write is stuck on the non-reading peer
		bg = fsNewCall(ckRPC, 2, 0)
		go bg.run(w, w.cfg)
	}
	if withBackground == 3 {
		// meanwhile a node is being added to the manager (AddNode, or a configuration naming a
		// new address) whose blocking dial hangs for longer than anybody's deadline
		ph := w.net.addPeer(9, true)
		ph.hang = true
		go func() {
			if n, err := NewRawNodeWithID(ph.addr, 9); err == nil {
				_ = w.mgr.AddNode(n)
			}
		}()
		vReach("node-being-added")
	}
	kind := vChoice("calltype", ckN)
	if withBackground == 1 && (kind == ckAsync || kind == ckCorrectable || kind == ckCorrStream) {
		vAssume(false) // the queue-behind-a-stuck-write scenario: blocking call types and no-send-waiting one-way calls
	}
	c := fsNewCall(kind, 1, 0)
	go c.run(w, w.cfg)
	c.cancel() // at a point of the run chosen by the scheduler
	vFreezeEnv()
	vQuiescent()
	vReach("calltype-" + ckNames[kind])
	stuckBehind := bg != nil && peerKind == c08NotReading
	_ = stuckBehind
	if !c.issued {
		vFail("C08.invocation-does-not-return-after-context-end")
	}
	if !c.returned {
		vFail("C08.result-not-available-after-context-end")
	}
	if c.err != nil {
		vReach("error-reported")
		// known: the call's own cancellation tears down the stream (sendMsg's watcher), and the
		// resulting stream-down node error may win the race against ctx.Done in the caller
		vKnown("F-C08-errmatch", c.ctxErrAtReturn && !fsIsCtxErr(c.err, c.ctx) && fsIsNodeFailureReport(c.err))
		if c.ctxErrAtReturn {
			vAssert(fsIsCtxErr(c.err, c.ctx), "C08.error-does-not-match-context")
		}
	}
	if bg != nil {
		vReach("with-background-call")
		if peerKind != c08Down {
			// the background call's context is live and nobody answered: it is still waiting
			vAssert(!bg.returned || bg.err != nil, "C05.background-call-got-foreign-reply")
		}
	}
}

// verifC08Aftermath (withBackground == 2): "whatever other calls are in flight" includes calls
// that were given up earlier. A first call of symbolic type is cancelled at any point against a
// peer that holds its answers back; then the peer answers everything it received (late
// replies for a call that has already returned); then a second call is issued and cancelled
// at any point: it must return as well.
func verifC08Aftermath(nThin, sendBuffer int) {
	var opts []ManagerOption
	if sendBuffer > 0 {
		opts = append(opts, WithSendBufferSize(uint(sendBuffer)))
	}
	w := vMixed(1, nThin, nil, opts...)
	p := w.peers[0]
	kindA := vChoice("calltype", ckN)
	a := fsNewCall(kindA, 1, 0)
	go a.run(w, w.cfg)
	a.cancel()
	vQuiescent()
	vReach("calltype-" + ckNames[kindA])
	if !a.issued {
		vFail("C08.invocation-does-not-return-after-context-end")
	}
	if !a.returned {
		vFail("C08.result-not-available-after-context-end")
	}
	// the late answers
	for x := p.take(); x != nil; x = p.take() {
		if !ckOneWay(kindA) {
			p.reply(x, vStamp(p, x, 0), nil)
			vReach("late-reply")
		}
	}
	vQuiescent()
	kindB := vChoice("second", 3)
	kb := []int{ckRPC, ckQC, ckUnicast}[kindB]
	b := fsNewCall(kb, 2, 0)
	go b.run(w, w.cfg)
	b.cancel()
	vFreezeEnv()
	vQuiescent()
	if !b.issued {
		vFail("C08.invocation-does-not-return-after-context-end")
	}
	if !b.returned {
		vFail("C08.result-not-available-after-context-end")
	}
	// C05: the peer never answered the second call - a reply it reports can only be the late
	// reply to the first one
	if kb != ckUnicast {
		vAssert(b.err != nil, "C05.late-reply-observed-by-another-call")
	}
	vReach("second-call-returned")
}

func VerifC08Twin(nThin, withBackground, sendBuffer int) {
	VerifC08(nThin, withBackground, sendBuffer)
	vFail("C08.twin")
}
