//go:build verif

package gorums

import (
	"context"

	"google.golang.org/protobuf/reflect/protoreflect"
)

// C09 — finished or abandoned calls never disable a node.
//
// After any bounded workload (calls of every type ending by quorum, exhaustion, cancellation,
// node error, stream break or correctable completion, see fsOneCallScenario) the peer is up
// and responsive; a probe RPC with a fresh context, issued at quiescence, must be written to
// the peer and — once the peer has answered — return that very reply. Timers may fire in the
// final phase (back-off waits are not wedges; they are C10's subject).

func VerifC09(nThin, maxEvents, calls int) {
	w := vMixed(1, nThin, nil)
	vQuiescent()
	for k := 0; k < calls; k++ {
		kind, _, _ := fsOneCallScenario(w, nThin, maxEvents, 1+k)
		vReach("workload-" + ckNames[kind])
	}
	// final phase: the peer is up and answers; timers may fire
	vUnfreezeEnv()
	p := w.peers[0]
	probe := &vMsg{tok: 4242}
	var resp protoreflect.ProtoMessage
	var err error
	returned := false
	go func() {
		resp, err = w.nodes[0].RPCCall(context.Background(), CallData{Message: probe, Method: "verif.probe"})
		returned = true
	}()
	vQuiescent()
	a := p.take()
	if a == nil {
		vFail("C09.probe-not-delivered")
	}
	vAssert(a.msg.Message == protoreflect.ProtoMessage(probe), "C09.probe-payload")
	stamp := vStamp(p, a, 99)
	vAssert(p.reply(a, stamp, nil), "harness.inbox-full")
	vQuiescent()
	if !returned {
		vFail("C09.probe-not-answered")
	}
	vAssert(err == nil && resp == protoreflect.ProtoMessage(stamp), "C09.probe-wrong-result")
	vReach("probe-ok")
}

func VerifC09Twin(nThin, maxEvents, calls int) { VerifC09(nThin, maxEvents, calls); vFail("C09.twin") }
