//go:build verif

package gorums

import (
	"context"
	"errors"

	"google.golang.org/protobuf/reflect/protoreflect"
)

// C11 — correctable calls publish levels and values monotonically; done is final.
//
// Thin transport. Symbolic: n ∈ 1..nmax; per node (per stream message) reply or error, order,
// silence; cancellation position; the level function is havoc: invocation k returns a fresh
// object, a symbolic level in [-1, 3] and a symbolic done flag (a done report is assumed not
// to lower the level, which is all the property text requires of completion).
// Observations (Get, two watchers, Done) are made at quiescence after every event.
//
// Executed for real: CorrectableCall, handleCorrectableCall, Correctable.{Get,Done,Watch,set},
// enqueue, routeResponse, deleteRouter.

type c11Ghost struct {
	atDoneSeen   bool
	atDoneLevel  int
	atDoneErrNil bool
	n        int
	stream   bool
	skip     []bool
	targeted int
	answered []int // messages sent by node i
	failed   []bool
	replies  int
	errorsN  int
	allErr   int

	invocations int
	pubLevel    int // highest level reported so far (what must be published)
	pubVal      *vMsg
	published   bool
	doneSeen    bool
	doneVal     *vMsg
	doneLevel   int
	cancelled   bool
	lastQF      *vMsg

	lastObservedLevel int
	completedSeen     bool
	finalVal          protoreflect.ProtoMessage
	finalLevel        int
	finalErrNil       bool
}

func VerifC11(nmax, maxEvents, streamArg int) {
	g := &c11Ghost{pubLevel: LevelNotSet, lastObservedLevel: LevelNotSet}
	g.n = 1 + vChoice("n", nmax)
	n := g.n
	g.stream = streamArg == 1
	cfg, nodes := vThinConfig(n, 1)
	g.answered = make([]int, n)
	g.failed = make([]bool, n)
	g.skip = make([]bool, n)
	perNode := vChoice("perNode", 2) == 1
	for i := 0; i < n; i++ {
		if perNode && vChoice("skip", 2) == 1 {
			g.skip[i] = true
		} else {
			g.targeted++
		}
	}
	req := &vMsg{tok: 1}
	vKnown("R-corrstream", g.stream) // region marker, see F-C09-stream
	d := CorrectableCallData{Message: req, Method: "verif.C", ServerStream: g.stream}
	if perNode {
		d.PerNodeArgFn = func(r protoreflect.ProtoMessage, id uint32) protoreflect.ProtoMessage {
			if g.skip[int(id)-1] {
				return (*vMsg)(nil)
			}
			return &vMsg{tok: 10 + int(id)}
		}
	}
	d.QuorumFunction = func(r protoreflect.ProtoMessage, replies map[uint32]protoreflect.ProtoMessage) (protoreflect.ProtoMessage, int, bool) {
		vAssert(!g.doneSeen, "C11.qf-after-done")
		vAssert(r == protoreflect.ProtoMessage(req), "C11.qf-request-identity")
		g.invocations++
		out := &vMsg{tok: 100 + g.invocations}
		g.lastQF = out
		level := vRange("level", -1, 3)
		done := vBool("done")
		if done {
			vAssume(level >= g.pubLevel)
			g.doneSeen, g.doneVal, g.doneLevel = true, out, level
			if level > g.pubLevel {
				g.pubLevel = level
			}
			g.pubVal, g.published = out, true
		} else if level > g.pubLevel {
			g.pubLevel, g.pubVal, g.published = level, out, true
		}
		return out, level, done
	}
	ctx, cancel := context.WithCancel(context.Background())
	corr := cfg.CorrectableCall(ctx, d)
	// two watchers registered before any event, at concrete levels
	w0l := vChoice("watch0", 4) // levels 0..3
	w1l := vChoice("watch1", 3) - 1
	w0 := corr.Watch(w0l)
	w1 := corr.Watch(w1l)
	// two readers that act the moment they are released (not at quiescence): a released
	// watcher must find its level published - or the call complete - in Get "at once", and
	// whoever sees Done closed must already see the final state
	go func() {
		<-w0
		_, lvl, _ := corr.Get()
		vAssert(lvl >= w0l || c11Closed(corr.Done()), "C11.released-watcher-sees-stale-state")
	}()
	go func() {
		<-corr.Done()
		_, lvl, err := corr.Get()
		g.atDoneSeen, g.atDoneLevel, g.atDoneErrNil = true, lvl, err == nil
	}()
	vQuiescent()
	c11Observe(g, corr, w0, w0l, w1, w1l)
	var msgID uint64
	taken := make([]bool, n)
	for step := 0; step < maxEvents; step++ {
		ev := vChoice("event", n+2) // node i sends a message; n: cancel; n+1: stop
		if ev == n+1 {
			break
		}
		if ev == n {
			if g.cancelled {
				vAssume(false)
			}
			g.cancelled = true
			cancel()
		} else {
			i := ev
			if g.skip[i] || g.failed[i] || (!g.stream && g.answered[i] > 0) || g.answered[i] >= 2 {
				vAssume(false)
			}
			if !taken[i] {
				r, ok := vTake(nodes[i])
				vAssert(ok, "C11.request-not-queued")
				msgID = r.msg.Metadata.MessageID
				taken[i] = true
			}
			g.answered[i]++
			if vChoice("kind", 2) == 0 {
				g.replies++
				nodes[i].channel.routeResponse(msgID, response{nid: nodes[i].id, msg: &vMsg{tok: 1000 + i}})
			} else {
				g.errorsN++
				g.failed[i] = true
				nodes[i].channel.routeResponse(msgID, response{nid: nodes[i].id, err: vErrNode})
			}
		}
		vQuiescent()
		c11Observe(g, corr, w0, w0l, w1, w1l)
	}
	vReach("script-end")
}

func c11Closed(ch <-chan struct{}) bool {
	select {
	case <-ch:
		return true
	default:
		return false
	}
}

// c11Observe: the oracle, evaluated at quiescence.
func c11Observe(g *c11Ghost, corr *Correctable, w0 <-chan struct{}, w0l int, w1 <-chan struct{}, w1l int) {
	val, level, err := corr.Get()
	isDone := c11Closed(corr.Done())
	// when must the call be complete?
	firstAnswers := 0
	nfailed := 0
	for i := 0; i < g.n; i++ {
		if g.answered[i] > 0 {
			firstAnswers++
		}
		if g.failed[i] {
			nfailed++
		}
	}
	exhausted := (!g.stream && firstAnswers == g.targeted) || (g.stream && nfailed == g.targeted)
	mustBeDone := g.doneSeen || exhausted || g.cancelled
	if g.completedSeen {
		// done is final: nothing changes any more
		vAssert(isDone, "C11.done-reopened")
		vAssert(val == g.finalVal && level == g.finalLevel && (err == nil) == g.finalErrNil, "C11.get-changed-after-done")
		vAssert(g.atDoneSeen && g.atDoneLevel == g.finalLevel && g.atDoneErrNil == g.finalErrNil, "C11.get-changed-after-done.reader-released-by-Done")
		vAssert(g.targeted == 0 || (c11Closed(w0) && c11Closed(w1)), "C11.watcher-not-released-at-done")
		vReach("observed-after-done")
		return
	}
	vAssert(isDone == mustBeDone, "C11.completion-condition")
	vAssert(level >= g.lastObservedLevel, "C11.level-decreased")
	g.lastObservedLevel = level
	if !isDone {
		vAssert(err == nil, "C11.error-before-completion")
		if !g.published {
			vReach("nothing-published")
			vAssert(val == nil && level == LevelNotSet, "C11.initial-state")
		} else {
			vReach("intermediate-level-published")
			vAssert(level == g.pubLevel, "C11.level-not-published-at-once")
			vAssert(val == protoreflect.ProtoMessage(g.pubVal), "C11.value-is-not-qf-value")
		}
		vAssert(c11Closed(w0) == (w0l <= level), "C11.watcher0")
		vAssert(c11Closed(w1) == (w1l <= level), "C11.watcher1")
		return
	}
	// first observation of completion
	g.completedSeen = true
	g.finalVal, g.finalLevel, g.finalErrNil = val, level, err == nil
	// (with no targeted node the call may complete before the watchers are registered; the
	// text does not say what a Watch above the final level does after completion)
	vAssert(g.targeted == 0 || (c11Closed(w0) && c11Closed(w1)), "C11.watcher-not-released-at-done")
	if g.doneSeen {
		vReach("completed-by-done")
		vAssert(err == nil, "C11.done-with-error")
		vAssert(val == protoreflect.ProtoMessage(g.doneVal), "C11.done-value-is-not-qf-value")
		vAssert(level == g.doneLevel, "C11.done-level")
	} else {
		vAssert(err != nil, "C11.failure-without-error")
		vAssert(level == g.pubLevel, "C11.level-changed-at-failure")
		if g.cancelled && errors.Is(err, context.Canceled) {
			vReach("completed-by-context")
		} else {
			vReach("completed-by-exhaustion")
			vAssert(exhausted && errors.Is(err, Incomplete), "C11.failure-cause")
		}
	}
	// a watcher registered after completion at or below the final level is released
	vAssert(c11Closed(corr.Watch(level)), "C11.watch-after-done")
	// ... and so is one above it: the call is complete, the level can never be reached, and
	// "done: all watchers are released" - a goroutine waiting on it would wait for ever
	vAssert(c11Closed(corr.Watch(level+1)), "C11.watcher-registered-after-done-never-released")
}

func VerifC11Twin(nmax, maxEvents, streamArg int) {
	VerifC11(nmax, maxEvents, streamArg)
	vFail("C11.twin")
}
