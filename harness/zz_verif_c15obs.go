//go:build verif

package gorums

// VerifC15Observer: the read-only part of the public API (RawNode.LastErr, RawNode.Latency, the
// LastNodeError sort key, Manager/Configuration node lists) used from a goroutine of its own
// while the node fails and reconnects underneath: 1 full-stack node, one call in flight (rpc /
// quorum call / async), up to maxEvents stop/start events of the peer at scheduler-chosen
// points, nobs observations at scheduler-chosen points. Run under the race monitor: every
// field the observer reads (lastError, latency, the node pool) must be ordered with the
// library's writes by the locks the library itself takes.
func VerifC15Observer(maxEvents, nobs int) {
	w := vMixed(1, 0, nil)
	vFreezeEnv() // no timer fires: a failed reconnection attempt is followed by a back-off that lasts
	p := w.peers[0]
	n := w.nodes[0]
	kind := vChoice("workload", 3)
	c := fsNewCall(kind, 1, 1)
	go c.run(w, w.cfg)
	go func() {
		for i := 0; i < nobs; i++ {
			switch vChoice("observe", 4) {
			case 0:
				_ = n.LastErr()
			case 1:
				_ = n.Latency()
			case 2:
				nodes := append([]*RawNode(nil), w.cfg.Nodes()...)
				OrderedBy(LastNodeError, ID).Sort(nodes)
			case 3:
				_ = w.mgr.Size()
				for _, x := range w.mgr.Nodes() {
					_ = x.ID()
				}
			}
		}
	}()
	up := true
	for step := 0; step < maxEvents; step++ {
		ev := vChoice("event", 3)
		if ev == 0 {
			break
		}
		if (ev == 1) != up {
			vAssume(false)
		}
		if ev == 1 {
			p.stop()
		} else {
			p.start()
		}
		up = ev != 1
	}
	vQuiescent()
	c.cancel()
	vQuiescent()
	vReach("end")
}

func VerifC15ObserverTwin(maxEvents, nobs int) { VerifC15Observer(maxEvents, nobs); vFail("C15.twin") }

// VerifC15AddNode: a node is added to a manager that is already in use (AddNode directly, or a
// configuration built from an address the manager has not seen) while another goroutine looks
// nodes up (Node, Nodes) and uses what it finds (LastErr, Latency, an RPC). Whatever becomes
// visible through the manager must be completely initialised, ordered by the manager's own
// lock. Run under the race monitor.
func VerifC15AddNode() {
	w := vMixed(1, 0, nil)
	vFreezeEnv()
	p2 := w.net.addPeer(2, true)
	via := vChoice("via", 2)
	go func() {
		if via == 0 {
			n, err := NewRawNodeWithID(p2.addr, 2)
			if err == nil {
				_ = w.mgr.AddNode(n)
			}
		} else {
			_, _ = NewRawConfiguration(w.mgr, WithNodeMap(map[string]uint32{p2.addr: 2}))
		}
	}()
	go func() {
		var found *RawNode
		lk := vChoice("lookup", 3)
		if lk == 2 {
			// the manager is closed while the node is being added
			vReach("close-while-adding")
			w.mgr.Close()
			return
		}
		if lk == 0 {
			found, _ = w.mgr.Node(2)
		} else {
			for _, n := range w.mgr.Nodes() {
				if n.ID() == 2 {
					found = n
				}
			}
		}
		if found == nil {
			return
		}
		vReach("found-while-adding")
		switch vChoice("use", 3) {
		case 0:
			_ = found.LastErr()
		case 1:
			_ = found.Latency()
		case 2:
			c := fsNewCall(ckRPC, 9, 1)
			_, _ = found.RPCCall(c.ctx, CallData{Message: c.req, Method: "verif.rpc"})
		}
	}()
	vQuiescent()
	vReach("end")
}

func VerifC15AddNodeTwin() { VerifC15AddNode(); vFail("C15.twin") }

// VerifC14ConcurrentAdd: two goroutines create, at the same time, configurations that name
// an address the manager has not seen yet (each through a list, a map or AddNode). "The
// manager keeps one node object and connection per ID shared by all configurations": the
// pool lists the id once, both configurations (where both succeed) hold the same node object,
// and at most one connection to the peer stays open. Also run under the race monitor (C15).
func VerifC14ConcurrentAdd() {
	w := vMixed(1, 0, nil)
	vFreezeEnv()
	p2 := w.net.addPeer(2, true)
	p3 := w.net.addPeer(3, true)
	// the second goroutine asks for the same id under the same address - or under another
	// one (then at most one of the two creations may succeed: an id names one address)
	addrs := [2]string{p2.addr, p2.addr}
	if vChoice("same-address", 2) == 0 {
		addrs[1] = p3.addr
		vReach("one-id-two-addresses")
	}
	var got [2]*RawNode
	var failed [2]bool
	for g := 0; g < 2; g++ {
		g := g
		via := vChoice("via", 2)
		go func() {
			if via == 0 {
				n, err := NewRawNodeWithID(addrs[g], 2)
				if err != nil || w.mgr.AddNode(n) != nil {
					failed[g] = true
					return
				}
				got[g] = n
			} else {
				c, err := NewRawConfiguration(w.mgr, WithNodeMap(map[string]uint32{addrs[g]: 2}))
				if err != nil {
					failed[g] = true
					return
				}
				got[g] = c[0]
			}
		}()
	}
	vQuiescent()
	cnt := 0
	for _, n := range w.mgr.Nodes() {
		if n.ID() == 2 {
			cnt++
		}
	}
	vAssert(cnt == 1, "C14.node-pooled-twice|C15.pool-corrupted-by-concurrent-creation")
	pooled, ok := w.mgr.Node(2)
	vAssert(ok, "C14.node-not-pooled")
	for g := 0; g < 2; g++ {
		if !failed[g] {
			vAssert(got[g] == pooled, "C14.node-not-pooled.concurrent|C15.two-node-objects-for-one-id")
			vAssert(got[g].Address() == addrs[g], "C14.address-silently-mapped-to-another-node")
		}
	}
	vAssert(!failed[0] || !failed[1], "C14.both-creations-failed")
	vAssert(p2.conns+p3.conns <= 1, "C14.second-connection-for-one-id|C12.connection-left")
	vReach("end")
}

func VerifC14ConcurrentAddTwin() { VerifC14ConcurrentAdd(); vFail("C14.twin") }
