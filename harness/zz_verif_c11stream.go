//go:build verif

package gorums

import (
	"context"
	"errors"

	"google.golang.org/protobuf/reflect/protoreflect"
)

// C11 / C07 / C12 — a server-stream correctable call on the full stack (real sender, receiver,
// routeResponse, cancelPendingMsgs, reconnect, Close). The peer streams up to maxReplies
// replies for the one request and then the connection ends - mode 0: the stream breaks,
// mode 1: Manager.Close, mode 2: the call's context is cancelled - at any point, in particular while replies are still unconsumed in
// the call's reply buffer because the goroutine that runs the quorum function is slow (every
// schedule is explored). Whatever the schedule, once the node has failed the call must
// complete: with Incomplete naming the node once (mode 0), with some error (mode 1); Done is
// closed, levels only rose, and after Close no goroutine of the library is left.
func VerifC11Stream(maxReplies, mode int) {
	w := vFullStack(1, []bool{true})
	p := w.peers[0]
	req := &vMsg{tok: 1}
	invocations := 0
	lastLevel := LevelNotSet
	d := CorrectableCallData{Message: req, Method: "verif.CS", ServerStream: true}
	d.QuorumFunction = func(r protoreflect.ProtoMessage, replies map[uint32]protoreflect.ProtoMessage) (protoreflect.ProtoMessage, int, bool) {
		vAssert(r == protoreflect.ProtoMessage(req), "C11.qf-request-identity")
		invocations++
		return &vMsg{tok: 100 + invocations}, invocations, false // level rises with every reply, never done
	}
	vKnown("R-corrstream", true)
	ctx, cancel := context.WithCancel(context.Background())
	if mode == 2 {
		// C08 for streams that never end: once the context has ended, a streamed reply may only
		// be taken by an operation that also offered the context (a loop that polls the reply
		// channel first never looks at the context while replies keep coming)
		vRecvMustOffer("gorums.response", ctx.Done(), "C08.reply-taken-without-offering-the-ended-context")
	}
	corr := w.cfg.CorrectableCall(ctx, d)
	vQuiescent()
	a := p.take()
	vAssert(a != nil, "C06.request-not-delivered")
	k := vChoice("replies", maxReplies+1)
	for i := 0; i < k; i++ {
		vAssert(p.reply(a, vStamp(p, a, i), nil), "harness.inbox-full")
	}
	switch mode {
	case 0:
		p.breakStreams()
	case 1:
		w.mgr.Close()
	case 2:
		cancel() // the caller gives up, at any point, whatever is still buffered or coming
	}
	vFreezeEnv()
	vQuiescent()
	vReach("stream-ended")
	_, level, err := corr.Get()
	vAssert(level >= lastLevel && level <= k, "C11.level-decreased")
	if !c11Closed(corr.Done()) {
		vFail("C11.stream-call-not-completed-after-its-node-failed|C07.call-left-waiting|C12.in-flight-call-stranded")
	}
	vAssert(err != nil, "C11.completed-without-quorum-and-without-error")
	if mode == 2 {
		vReach("stream-cancelled")
		vAssert(errors.Is(err, context.Canceled), "C08.error-does-not-match-context")
		return
	}
	if mode == 0 {
		qe, isQE := err.(QuorumCallError)
		vAssert(isQE && errors.Is(err, Incomplete), "C11.failure-cause")
		vAssert(len(qe.errors) == 1 && qe.errors[0].nodeID == w.nodes[0].id, "C07.node-not-reported-exactly-once")
		vAssert(qe.replies <= 1, "C02.accounting")
		vReach("stream-broke")
	} else {
		vReach("stream-closed")
		vAssert(vLiveGoroutines(gorumsPkg) == 0, "C12.goroutine-left-after-close")
	}
	// the completed call leaves no routing entry behind (the receiver may be delivering the
	// stream-down error while the call's own clean-up runs)
	vAssert(w.routersLeft() == 0, "C18.routing-entry-left")
	// done is final
	_, level2, err2 := corr.Get()
	vAssert(level2 == level && err2 != nil, "C11.changed-after-done")
	vAssert(c11Closed(corr.Watch(level)), "C11.watch-after-done")
}

func VerifC11StreamTwin(maxReplies, mode int) {
	VerifC11Stream(maxReplies, mode)
	vFail("C11.twin")
}
