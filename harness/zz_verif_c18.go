//go:build verif

package gorums

import (
	spb "google.golang.org/genproto/googleapis/rpc/status"
)

// C18 — completed calls leave no residue (one inductive step: clean -> clean).
//
// World: 1 full-stack node + nThin thin nodes, clean (no routers, only sender and receiver
// goroutines). One call of any type, ending in any way: quorum before all replies, exhaustion,
// cancellation at any point, node error, stream break, correctable completion. Afterwards every
// targeted node answers (late replies included) or its stream has failed; at quiescence the
// node state must be clean again: no routing entry on any node and exactly the goroutines that
// existed before the call.

const gorumsPkg = "github.com/relab/gorums"

func VerifC18(nThin, maxEvents int) {
	w := vMixed(1, nThin, nil)
	vQuiescent()
	base := vLiveGoroutines(gorumsPkg)
	vAssert(w.routersLeft() == 0, "C18.not-clean-initially")
	kind, c, broke := fsOneCallScenario(w, nThin, maxEvents, 1)
	vReach("calltype-" + ckNames[kind])
	vAssert(c.issued, "C03.issue-blocked")
	vAssert(c.returned, "C02.lingers")
	vAssert(w.routersLeft() == 0, "C18.routing-entry-left")
	vAssert(vLiveGoroutines(gorumsPkg) == base, "C18.goroutine-left")
	for _, nd := range w.nodes {
		if nd.channel != nil && nd.channel.parentCtx != nil {
			// at most the current stream's context is registered with the node's context
			vAssert(vLiveChildren(nd.channel.parentCtx) <= 1, "C18.stream-context-kept-after-its-stream-was-replaced")
		}
	}
	if c.err != nil && c.ctx.Err() != nil && !ckOneWay(kind) {
		vReach("ended-by-context")
	}
	if broke {
		vReach("stream-broke")
	}
}

// fsOneCallScenario: one call of a symbolic type on a world of 1 full-stack + nThin thin nodes,
// with up to maxEvents environment events at scheduler-chosen points (peer reply / error reply,
// thin node answer, cancellation, stream break), followed by late answers for everything that
// is still outstanding; returns at quiescence with the environment frozen.
func fsOneCallScenario(w *vWorld, nThin, maxEvents, tag int) (int, *fsCall, bool) {
	n := 1 + nThin
	kind := vChoice("calltype", ckN)
	quorumOn := vChoice("quorumOn", n+1) // 0 = never
	c := fsNewCall(kind, tag, quorumOn)
	cfg := w.cfg
	go c.run(w, cfg)
	p := w.peers[0]
	thinAnswered := make([]bool, n)
	peerReplies := 0
	broke := false
	for step := 0; step < maxEvents; step++ {
		ev := vChoice("event", 5)
		switch ev {
		case 0: // stop
			step = maxEvents
		case 1: // the full-stack peer answers the oldest arrived message
			a := p.take()
			if a == nil {
				vAssume(false)
			}
			if ckOneWay(kind) {
				vAssume(false) // one-way handlers send no reply
			}
			if kind == ckCorrStream {
				if peerReplies >= 2 {
					vAssume(false)
				}
				p.arrived = append([]*vArrived{a}, p.arrived...) // a stream may answer again
			}
			peerReplies++
			if vChoice("peerkind", 2) == 0 {
				p.reply(a, vStamp(p, a, peerReplies), nil)
			} else {
				p.reply(a, nil, &spb.Status{Code: 13, Message: "verif"})
				if kind == ckCorrStream {
					p.arrived = p.arrived[1:] // a failed stream is over
				}
			}
		case 2: // a thin node answers
			if ckNodeLevel(kind) || nThin == 0 {
				vAssume(false)
			}
			i := 1 + vChoice("thin", nThin)
			if thinAnswered[i] {
				vAssume(false)
			}
			r, ok := vTake(w.nodes[i])
			if !ok {
				vAssume(false)
			}
			thinAnswered[i] = true
			id := r.msg.Metadata.MessageID
			if ckOneWay(kind) {
				if r.waitForSend() {
					w.nodes[i].channel.routeResponse(id, response{}) // what sendMsg does after the write
				}
			} else if vChoice("thinkind", 2) == 0 {
				w.nodes[i].channel.routeResponse(id, response{nid: w.nodes[i].id, msg: &vMsg{tok: 1000 + i}})
			} else {
				w.nodes[i].channel.routeResponse(id, response{nid: w.nodes[i].id, err: vErrNode})
			}
		case 3: // the caller's context ends
			if c.ctx.Err() != nil {
				vAssume(false)
			}
			c.cancel()
		case 4: // the stream of the full-stack node breaks
			if broke {
				vAssume(false)
			}
			broke = true
			p.breakStreams()
		}
	}
	// every targeted node answers what it still owes, or has failed
	vFreezeEnv()
	vQuiescent()
	if !ckOneWay(kind) && kind != ckCorrStream {
		fsAnswerArrived(p, 3)
	}
	if ckOneWay(kind) {
		for p.take() != nil { // one-way requests are consumed by handlers that send no reply
		}
	}
	if !ckNodeLevel(kind) {
		for i := 1; i < n; i++ {
			if r, ok := vTake(w.nodes[i]); ok {
				id := r.msg.Metadata.MessageID
				if ckOneWay(kind) {
					if r.waitForSend() {
						w.nodes[i].channel.routeResponse(id, response{})
					}
				} else {
					w.nodes[i].channel.routeResponse(id, response{nid: w.nodes[i].id, msg: &vMsg{tok: 1000 + i}})
				}
			}
		}
	}
	if kind == ckCorrStream && c.ctx.Err() == nil {
		// a stream call only ends by completion: let it be cancelled
		c.cancel()
	}
	vQuiescent()
	if kind == ckCorrStream {
		for p.take() != nil { // the abandoned stream request
		}
	}
	return kind, c, broke
}

func VerifC18Twin(nThin, maxEvents int) { VerifC18(nThin, maxEvents); vFail("C18.twin") }
