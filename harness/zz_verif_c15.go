//go:build verif

package gorums

// C15 — the public API is free of data races under concurrent use.
//
// The engine's happens-before monitor (race.go) watches every plain load/store of repository
// code in all schedule harnesses run with the race flag (C05, C07, C10, C12, C18, C04), plus
// the dedicated harness below: construction of configurations concurrent with readers of the
// manager's node pool and with another construction.

func VerifC15Config(readers int) {
	c14HashAxioms()
	mgr := NewRawManager(WithNoConnect())
	// a first configuration exists already
	first, err := NewRawConfiguration(mgr, WithNodeList([]string{c14Addrs[2], c14Addrs[0]}))
	vAssume(err == nil) // (colliding generated ids are rejected: C14)
	// a configuration derived from overlapping operands (such results may carry spare
	// capacity); it is shared by the goroutines below, which derive further ones from it
	shared, err := NewRawConfiguration(mgr, first.And(first))
	vAssert(err == nil, "C14.and-with-itself")
	done := 0
	go func() {
		// another goroutine builds a configuration (new node + known node) and derives one
		// from the shared configuration
		c, _ := NewRawConfiguration(mgr, WithNodeList([]string{c14Addrs[3], c14Addrs[0]}))
		if c != nil {
			_, _ = NewRawConfiguration(mgr, shared.And(c))
		}
		done++
	}()
	for r := 0; r < readers; r++ {
		go func() {
			switch vChoice("reader", 5) {
			case 4:
				_, _ = NewRawConfiguration(mgr, shared.And(first))
				_, _ = NewRawConfiguration(mgr, shared.Except(first))
			case 0:
				for _, id := range mgr.NodeIDs() {
					_ = id
				}
			case 1:
				for _, n := range mgr.Nodes() {
					_ = n.ID()
				}
			case 2:
				_, _ = mgr.Node(7)
				_ = mgr.Size()
			case 3:
				_, _ = NewRawConfiguration(mgr, WithNodeIDs(mgr.NodeIDs()))
			}
		}()
	}
	vQuiescent()
	vReach("end")
}

func VerifC15ConfigTwin(readers int) { VerifC15Config(readers); vFail("C15.twin") }

// VerifC15Close: Manager.Close concurrent with a call on a node that has never been connected
// (the sender re-dials on every send): RawNode.dial and RawNode.close share n.conn.
func VerifC15Close() {
	w := vMixed(1, 0, []bool{false})
	vFreezeEnv()
	c := fsNewCall(ckRPC, 1, 1)
	go c.run(w, w.cfg)
	go w.mgr.Close()
	vQuiescent()
	vReach("end")
}

func VerifC15CloseTwin() { VerifC15Close(); vFail("C15.twin") }
