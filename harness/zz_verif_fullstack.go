//go:build verif

package gorums

import (
	"context"
	"errors"
	"fmt"

	spb "google.golang.org/genproto/googleapis/rpc/status"
	"google.golang.org/grpc"
	"google.golang.org/grpc/codes"
	"google.golang.org/grpc/credentials/insecure"
	"google.golang.org/grpc/metadata"
	"google.golang.org/grpc/status"

	"github.com/relab/gorums/ordering"
)

// ---------------------------------------------------------------------------
// Full-stack puppet transport: manager, nodes, channels, sender and receiver goroutines are
// created by the real NewRawManager / NewRawNodeWithID / AddNode / connect / newChannel path.
// Only grpc.DialContext, (*grpc.ClientConn).Close and ordering.NewGorumsClient are redirected
// to the puppet peer below, which implements the grpc.ClientStream contract:
//
//   NodeStream(ctx)  fails while the peer is down, else returns a stream bound to ctx
//   SendMsg(m)       appends m to the wire (wire order = call order); blocks while the peer
//                    "does not read" until the stream context ends or the stream breaks;
//                    fails once the context ended or the stream is broken; never called by
//                    two goroutines at once (monitored)
//   RecvMsg(m)       blocks until the environment releases a reply for this stream, the
//                    stream context ends, or the stream breaks
//
// Every environment action (reply, error reply, duplicate, break, stop, start) is performed by
// the harness at a point chosen by the engine's scheduler.

var (
	vErrPeerDown = status.Error(codes.Unavailable, "verif: peer down")
	vErrBroken   = status.Error(codes.Unavailable, "verif: stream broken")
)

type vPeer struct {
	addr     string
	id       uint32
	up       bool
	refuse   bool // a dial fails (blocking dial that times out): DialContext returns (nil, error)
	hang   bool // a blocking dial to this peer waits for its context (dial timeout) and then fails
	reading  bool
	readGate chan struct{} // closed while the peer reads
	streams  []*vCliStream
	conns    int // connections currently open to this peer
	dials    int
	// ghost
	wire      []*Message     // everything written, in order
	wireCtxMD []metadata.MD  // outgoing metadata of every stream created
	arrived   []*vArrived    // written messages not yet answered
	delivered map[uint64]int // replies released per message id
	// behave, if set, is the scripted server behaviour: called in the writing goroutine right
	// after a message was written (reply / error reply / duplicate / hold / break ...). A reply
	// placed in the stream's inbox at once is as general as one arriving later: the only
	// observer of its arrival is the receiver goroutine, whose RecvMsg is scheduled freely.
	behave func(p *vPeer, a *vArrived)
}

type vArrived struct {
	st  *vCliStream
	msg *Message
}

type vCliStream struct {
	grpc.ClientStream // nil: only Context/SendMsg/RecvMsg are used by the library
	peer              *vPeer
	ctx               context.Context
	in                chan *Message
	broken            chan struct{}
	isBroken          bool
	sending           bool
	receiving         bool
}

// vNet is the puppet network: address -> peer, connection -> peer.
type vNetT struct {
	peers map[string]*vPeer
	conns map[*grpc.ClientConn]*vPeer
	open  map[*grpc.ClientConn]bool
	// baseDialOpts: number of dial options the harness gave the manager; libraryDialOpts is
	// set when a dial carries more than that - options the LIBRARY added (interceptors,
	// per-RPC credentials, ...), which the puppet transport cannot execute: what they would
	// add to a connection (e.g. metadata) is then not visible here, and assertions about it
	// are not decidable (the path is dropped; the check reports INCONCLUSIVE, not a verdict).
	baseDialOpts    int
	libraryDialOpts bool
}

var vNet *vNetT

func vNewNet() *vNetT {
	vNet = &vNetT{peers: map[string]*vPeer{}, conns: map[*grpc.ClientConn]*vPeer{}, open: map[*grpc.ClientConn]bool{}}
	return vNet
}

func (n *vNetT) addPeer(id uint32, up bool) *vPeer {
	p := &vPeer{addr: fmt.Sprintf("127.0.0.1:%d", 9000+int(id)), id: id, up: up, reading: true, readGate: make(chan struct{}), delivered: map[uint64]int{}}
	p.refuse = vDialRefused
	close(p.readGate)
	n.peers[p.addr] = p
	return p
}

// ---- redirected gRPC entry points ----

// Contract: the non-blocking dial always yields a connection handle; whether the peer is
// reachable only shows when a stream is created. A blocking dial (grpc.WithBlock) to a peer that
// does not answer fails instead: (nil, error) - modelled by vPeer.refuse.
//
//verif:stub google.golang.org/grpc.DialContext
func vstubDialContext(ctx context.Context, target string, opts ...grpc.DialOption) (*grpc.ClientConn, error) {
	cc := new(grpc.ClientConn)
	vAtomic(1, vNet)
	if len(opts) != vNet.baseDialOpts {
		vNet.libraryDialOpts = true
	}
	p := vNet.peers[target]
	if p == nil {
		vAtomicEnd()
		return nil, errors.New("verif: unknown address " + target)
	}
	if p.refuse {
		vAtomicEnd()
		return nil, errors.New("verif: dial timed out " + target)
	}
	if p.hang {
		// a blocking dial to a peer that does not answer: waits out the dial timeout
		vAtomicEnd()
		<-ctx.Done()
		return nil, errors.New("verif: dial timed out " + target)
	}
	vNet.conns[cc] = p
	vNet.open[cc] = true
	p.conns++
	p.dials++
	vAtomicEnd()
	return cc, nil
}

// Close tears down every stream created over the connection.
//
//verif:stub (*google.golang.org/grpc.ClientConn).Close
func vstubConnClose(cc *grpc.ClientConn) error {
	vAtomic(1, vNet)
	p := vNet.conns[cc]
	if p == nil || !vNet.open[cc] {
		vAtomicEnd()
		return errors.New("verif: connection already closed")
	}
	vNet.open[cc] = false
	p.conns--
	sts := p.streams
	vAtomicEnd()
	for _, s := range sts {
		s.breakIt()
	}
	return nil
}

type vClient struct{ peer *vPeer }

//verif:stub github.com/relab/gorums/ordering.NewGorumsClient
func vstubNewGorumsClient(cc grpc.ClientConnInterface) ordering.GorumsClient {
	return &vClient{peer: vNet.conns[cc.(*grpc.ClientConn)]}
}

func (c *vClient) NodeStream(ctx context.Context, opts ...grpc.CallOption) (ordering.Gorums_NodeStreamClient, error) {
	p := c.peer
	vAtomic(1, p)
	if !p.up {
		vAtomicEnd()
		return nil, vErrPeerDown
	}
	st := &vCliStream{peer: p, ctx: ctx, in: make(chan *Message, 8), broken: make(chan struct{})}
	p.streams = append(p.streams, st)
	md, _ := metadata.FromOutgoingContext(ctx)
	p.wireCtxMD = append(p.wireCtxMD, md)
	vAtomicEnd()
	return st, nil
}

func (s *vCliStream) Context() context.Context          { return s.ctx }
func (s *vCliStream) Send(*ordering.Metadata) error     { panic("unused") }
func (s *vCliStream) Recv() (*ordering.Metadata, error) { panic("unused") }
func (s *vCliStream) CloseSend() error                  { return nil }

func (s *vCliStream) breakIt() {
	vAtomic(1, s, s.broken)
	if !s.isBroken {
		s.isBroken = true
		close(s.broken)
	}
	vAtomicEnd()
}

func (s *vCliStream) SendMsg(m interface{}) error {
	vAssert(!s.sending, "C03.concurrent-SendMsg-on-one-stream")
	s.sending = true
	// the peer accepts the write only while it reads
	select {
	case <-s.ctx.Done():
		s.sending = false
		return status.FromContextError(s.ctx.Err()).Err()
	case <-s.broken:
		s.sending = false
		return vErrBroken
	case <-s.peer.readGate:
	}
	msg := m.(*Message)
	vAtomic(1, s.peer)
	if s.isBroken || s.ctx.Err() != nil {
		vAtomicEnd()
		s.sending = false
		return vErrBroken
	}
	s.peer.wire = append(s.peer.wire, msg)
	a := &vArrived{st: s, msg: msg}
	behave := s.peer.behave
	if behave == nil {
		s.peer.arrived = append(s.peer.arrived, a)
	}
	vAtomicEnd()
	if behave != nil {
		behave(s.peer, a)
	}
	s.sending = false
	return nil
}

func (s *vCliStream) RecvMsg(m interface{}) error {
	vAssert(!s.receiving, "C03.concurrent-RecvMsg-on-one-stream")
	s.receiving = true
	select {
	case <-s.ctx.Done():
		s.receiving = false
		return status.FromContextError(s.ctx.Err()).Err()
	case <-s.broken:
		s.receiving = false
		return vErrBroken
	case r := <-s.in:
		out := m.(*Message)
		vAssert(out.msgType == responseType, "C13.client-creates-response-type")
		// as the codec does: metadata decoded into the message's own metadata object
		vDecodeMetadataInto(out, r.Metadata)
		out.Message = r.Message
		s.receiving = false
		return nil
	}
}

// ---- environment actions on a peer (each one engine transition) ----

// take removes the oldest arrived, unanswered message (nil if none).
func (p *vPeer) take() *vArrived {
	vAtomic(1, p)
	defer vAtomicEnd()
	if len(p.arrived) == 0 {
		return nil
	}
	a := p.arrived[0]
	p.arrived = append([]*vArrived{}, p.arrived[1:]...)
	return a
}

// reply releases a reply for a written message on the stream it arrived on.
func (p *vPeer) reply(a *vArrived, payload *vMsg, st *spb.Status) bool {
	md := &ordering.Metadata{MessageID: a.msg.Metadata.MessageID, Method: a.msg.Metadata.Method, Status: st}
	var body *vMsg = payload
	select {
	case a.st.in <- &Message{Metadata: md, Message: body}:
		vAtomic(1, p)
		p.delivered[md.MessageID]++
		vAtomicEnd()
		return true
	default:
		return false
	}
}

func (p *vPeer) breakStreams() {
	vAtomic(0, p)
	sts := p.streams
	vAtomicEnd()
	for _, s := range sts {
		s.breakIt()
	}
}

func (p *vPeer) stop() {
	vAtomic(1, p)
	p.up = false
	sts := p.streams
	p.streams = nil
	p.arrived = nil
	vAtomicEnd()
	for _, s := range sts {
		s.breakIt()
	}
}

func (p *vPeer) start() {
	vAtomic(1, p)
	p.up = true
	vAtomicEnd()
}

func (p *vPeer) stopReading() {
	vAtomic(1, p, p.readGate)
	p.reading = false
	p.readGate = make(chan struct{})
	vAtomicEnd()
}

// ---- world construction through the real API ----

type vWorld struct {
	net   *vNetT
	mgr   *RawManager
	cfg   RawConfiguration
	nodes []*RawNode
	peers []*vPeer
}

// Node id layout knobs (0 = default: full-stack nodes get ids 1..nFull, thin nodes follow).
// A harness sets them before building its world, e.g. to make the shared full-stack node a
// non-first member of a configuration.
var (
	vFullStackFirstID uint32
	// vDialRefused: peers created while it is set refuse dials (vPeer.refuse)
	vDialRefused bool
	vThinFirstID uint32
)

// vFullStack builds a manager with n full-stack nodes (ids 1..n) through the real
// NewRawManager / NewRawNodeWithID / AddNode path; up[i] says whether peer i is up at creation.
func vFullStack(n int, up []bool, opts ...ManagerOption) *vWorld {
	w := &vWorld{net: vNewNet()}
	// (credentials are only needed by the real dial of native replays)
	opts = append(opts, WithGrpcDialOptions(grpc.WithTransportCredentials(insecure.NewCredentials())))
	w.mgr = NewRawManager(opts...)
	w.net.baseDialOpts = len(w.mgr.opts.grpcDialOpts)
	ids := make([]uint32, n)
	first := vFullStackFirstID
	if first == 0 {
		first = 1
	}
	for i := 0; i < n; i++ {
		id := first + uint32(i)
		ids[i] = id
		p := w.net.addPeer(id, up == nil || up[i])
		w.peers = append(w.peers, p)
		node, err := NewRawNodeWithID(p.addr, id)
		if err != nil {
			panic(err)
		}
		if err := w.mgr.AddNode(node); err != nil {
			panic(err)
		}
		w.nodes = append(w.nodes, node)
		// failure descriptors of goroutines parked in methods of this channel carry the flag
		// (used to tell the known wedge F-C09-stale from other ways of blocking there)
		if node.channel != nil {
			vWatch("streamBroken", &node.channel.streamBroken.flag)
		}
	}
	cfg, err := NewRawConfiguration(w.mgr, WithNodeIDs(ids))
	if err != nil {
		panic(err)
	}
	w.cfg = cfg
	return w
}

// vMixed builds nFull full-stack nodes (ids 1..nFull) plus nThin thin-transport nodes (ids
// nFull+1..) in one manager and one configuration ("mixed transport": the call-level code
// cannot tell the difference; the schedule space stays that of the full-stack nodes).
func vMixed(nFull, nThin int, up []bool, opts ...ManagerOption) *vWorld {
	w := vFullStack(nFull, up, opts...)
	ids := make([]uint32, 0, nFull+nThin)
	for _, n := range w.nodes {
		ids = append(ids, n.id)
	}
	for i := 0; i < nThin; i++ {
		id := uint32(nFull + i + 1)
		if vThinFirstID != 0 {
			id = vThinFirstID + uint32(i)
		}
		w.nodes = append(w.nodes, vThinNode(w.mgr, id, 1))
		w.peers = append(w.peers, nil)
		ids = append(ids, id)
	}
	cfg, err := NewRawConfiguration(w.mgr, WithNodeIDs(ids))
	if err != nil {
		panic(err)
	}
	w.cfg = cfg
	return w
}

// vStamp is the reply the puppet node produces for a message.
func vStamp(p *vPeer, a *vArrived, ser int) *vMsg {
	m := &vMsg{tok: 1000 + int(p.id), node: p.id, call: a.msg.Metadata.MessageID, ser: ser}
	if r, ok := a.msg.Message.(*vMsg); ok && r != nil {
		m.reqTok = r.tok
	}
	return m
}

// vDecodeMetadataInto does to the target's metadata what the codec's Unmarshal does: the target
// is reset first unless the codec's unmarshal options say Merge, then every field that is
// present on the wire (non-zero scalar, non-nil message) is written. The option is read from
// the real NewCodec(), so that a codec that stops resetting its targets behaves here as it
// does on the wire (with a re-used target, fields absent from a later frame keep the values
// of an earlier one).
func vDecodeMetadataInto(out *Message, wire *ordering.Metadata) {
	if out.Metadata == nil {
		out.Metadata = &ordering.Metadata{}
	}
	if !NewCodec().unmarshaler.Merge {
		out.Metadata.MessageID, out.Metadata.Method, out.Metadata.Status = 0, "", nil
	}
	if wire.MessageID != 0 {
		out.Metadata.MessageID = wire.MessageID
	}
	if wire.Method != "" {
		out.Metadata.Method = wire.Method
	}
	if wire.Status != nil {
		out.Metadata.Status = wire.Status
	}
}
