//go:build verif

package gorums

import (
	"context"
	"fmt"
	"sync"

	"google.golang.org/protobuf/reflect/protoreflect"
)

// ---------------------------------------------------------------------------
// puppet messages

// vMsg is the puppet protobuf message: an identity carrying a stamp. The library only ever
// calls ProtoReflect().IsValid() on application messages (per-node skip test).
type vMsg struct {
	tok  int // stamp: who produced it / which request
	node uint32
	call uint64
	ser  int
	// reqTok: for replies, the token of the request that caused it
	reqTok int
}

type vMsgReflect struct {
	protoreflect.Message // nil: every other method is outside what the library calls
	m                    *vMsg
}

func (m *vMsg) ProtoReflect() protoreflect.Message         { return vMsgReflect{m: m} }
func (r vMsgReflect) IsValid() bool                        { return r.m != nil }
func (r vMsgReflect) Interface() protoreflect.ProtoMessage { return r.m }

// ---------------------------------------------------------------------------
// thin transport: real manager / nodes / configuration; each node's channel is built
// directly (real struct, real responseRouters/sendQ) and has *no* sender goroutine: the
// harness plays the nodes by taking requests from sendQ and answering through the real
// routeResponse.

func vThinManager() *RawManager {
	return NewRawManager(WithNoConnect())
}

func vThinNode(mgr *RawManager, id uint32, qcap int) *RawNode {
	node, err := NewRawNodeWithID(fmt.Sprintf("127.0.0.1:%d", 9000+int(id)), id)
	if err != nil {
		panic(err)
	}
	node.mgr = mgr
	// The channel is set up by the real constructor - so that whatever fields the library
	// has, adds or re-types are initialised the way the library initialises them - on a
	// throw-away node whose context is cancelled at once (its sender goroutine ends). The
	// thin node gets a copy of that struct with its own queue and context and NO sender.
	tmp := &RawNode{id: id, addr: node.addr, mgr: mgr}
	tc := newChannel(tmp)
	tmp.cancel()
	ch := new(channel)
	*ch = *tc
	ch.sendQ = make(chan request, qcap)
	ch.parentCtx = context.Background()
	ch.node = node
	node.channel = ch
	mgr.nodes = append(mgr.nodes, node)
	mgr.lookup[id] = node
	return node
}

// vThinConfig returns a configuration of n thin nodes with ids 1..n.
func vThinConfig(n, qcap int) (RawConfiguration, []*RawNode) {
	mgr := vThinManager()
	nodes := make([]*RawNode, n)
	cfg := make(RawConfiguration, n)
	for i := range nodes {
		nodes[i] = vThinNode(mgr, uint32(i+1), qcap)
		cfg[i] = nodes[i]
	}
	return cfg, nodes
}

// vTake removes the next queued request of a thin node, if any.
func vTake(n *RawNode) (request, bool) {
	select {
	case r := <-n.channel.sendQ:
		return r, true
	default:
		return request{}, false
	}
}

// vPending reports the number of routing entries of a node.
// (Only called at quiescence, when no library goroutine is running; it takes no lock so that
// it does not depend on how the library guards the table.)
func vRouters(n *RawNode) int {
	return vCountEntries(&n.channel.responseRouters)
}

// vCountEntries counts the entries of the routing table whatever container the library keeps
// it in (a map today; the harness must not stop compiling when that changes).
func vCountEntries(table interface{}) int {
	switch m := table.(type) {
	case *map[uint64]responseRouter:
		return len(*m)
	case *sync.Map:
		k := 0
		m.Range(func(_, _ interface{}) bool { k++; return true })
		return k
	}
	panic("verif: unknown routing table type")
}
