//go:build verif

package gorums

import (
	"errors"
	"sort"
	"strconv"
	"sync"
	"sync/atomic"
)

// Translator validation (DESIGN 3.10, Appendix C): small programs covering the instruction
// kinds and runtime semantics the harnesses rely on. Each one records a trace with vObserve;
// the native trace (go test) and the interpreter's trace must be identical
// (selftest/run.py). All observations are made by the main goroutine.

type stPoint struct{ x, y int }
type stShape interface{ Area() int }
type stRect struct{ w, h int }
type stSq struct{ stRect }

func (r stRect) Area() int    { return r.w * r.h }
func (r *stRect) Scale(k int) { r.w *= k; r.h *= k }

func VerifSelftestInts() {
	var a8 int8 = 127
	a8++
	vObserve("int8-wrap", int(a8))
	var u8 uint8 = 3
	u8 -= 5
	vObserve("uint8-wrap", int(u8))
	var u32 uint32 = 1 << 31
	vObserve("u32-shl", int(u32<<1))
	vObserve("u32-shr", int(u32>>31))
	var s uint = 70
	vObserve("shift-ge-width", int(uint64(1)<<s))
	var neg int64 = -9
	vObserve("sdiv", int(neg/2))
	vObserve("srem", int(neg%4))
	vObserve("ashr", int(neg>>1))
	big := 300
	vObserve("conv-trunc", int(int8(big)))
	vObserve("conv-sext", int(int64(int8(-3))))
	vObserve("conv-zext", int(uint64(uint8(253))))
	vObserve("andnot", 0xff&^0x0f)
	vObserve("cmp", -1 < 1 && uint32(1<<31) > 1)
	x := 0
	for i := 0; i < 10; i++ {
		if i%3 == 0 {
			continue
		}
		if i == 8 {
			break
		}
		x += i
	}
	vObserve("loop", x)
}

func VerifSelftestSlices() {
	a := make([]int, 2, 4)
	b := append(a, 7)
	c := append(a, 9) // aliases b's third element
	vObserve("alias", b[2])
	vObserve("len-cap", len(c)*10+cap(c))
	d := append(b, 1, 2) // beyond capacity: new array
	d[0] = 5
	vObserve("no-alias-after-grow", a[0])
	vObserve("grow-cap", cap(d) >= 5)
	var n []int
	vObserve("nil-slice", n == nil && len(n) == 0)
	n = append(n, 1)
	vObserve("append-nil", n[0])
	e := []int{1, 2, 3, 4, 5}
	f := e[1:3:4]
	vObserve("full-slice", len(f)*10+cap(f))
	copy(e, e[2:])
	vObserve("copy-overlap", e[0]*100+e[1]*10+e[2])
	arr := [3]int{1, 2, 3}
	brr := arr
	brr[0] = 9
	vObserve("array-copy", arr[0])
	p := &arr
	p[1] = 8
	vObserve("array-ptr", arr[1])
	bs := []byte("héllo")
	vObserve("bytes", len(bs))
	vObserve("string-back", string(bs[:1]))
	sort.Ints(e)
	vObserve("sorted", e[0] <= e[1] && e[1] <= e[2] && e[3] <= e[4])
}

func VerifSelftestMaps() {
	m := map[string]int{"a": 1}
	m["b"] = 2
	m["a"] = 3
	delete(m, "zz")
	v, ok := m["c"]
	vObserve("missing", v*10+map[bool]int{true: 1}[ok])
	vObserve("len", len(m))
	sum := 0
	for k, x := range m {
		sum += x + len(k)
	}
	vObserve("range-sum", sum)
	// sync.Map (engine: built-in model)
	var sm sync.Map
	_, ok1 := sm.Load("k")
	sm.Store("k", 7)
	sm.Store(42, "x")
	v2, ok2 := sm.Load("k")
	act, loaded := sm.LoadOrStore("k", 9)
	act2, loaded2 := sm.LoadOrStore("n", 11)
	sm.Delete(42)
	_, ok3 := sm.Load(42)
	v4, ok4 := sm.LoadAndDelete("n")
	_, ok5 := sm.Load("n")
	b2i := func(b bool) int {
		if b {
			return 1
		}
		return 0
	}
	vObserve("syncmap-flags", b2i(ok1)+2*b2i(ok2)+4*b2i(loaded)+8*b2i(loaded2)+16*b2i(ok3)+32*b2i(ok4)+64*b2i(ok5))
	vObserve("syncmap-values", v2.(int)*1000000+act.(int)*10000+act2.(int)*100+v4.(int))
	delete(m, "a")
	vObserve("after-delete", len(m))
	var nm map[int]int
	vObserve("nil-map-read", nm[4])
	pm := map[stPoint]string{{1, 2}: "p"}
	vObserve("struct-key", pm[stPoint{1, 2}])
	mm := map[int][]int{}
	mm[1] = append(mm[1], 5)
	vObserve("map-of-slices", mm[1][0])
	panicked := vExpectPanic(func() { nm[1] = 1 })
	vObserve("nil-map-write-panics", panicked)
}

func VerifSelftestStrings() {
	s := "gorums" + strconv.Itoa(42)
	vObserve("concat", s)
	vObserve("index", int(s[2]))
	vObserve("slice", s[1:4])
	vObserve("cmp", "abc" < "abd" && "b" > "abc")
	cnt := 0
	for i, r := range "aé!" {
		cnt += i + int(r)
	}
	vObserve("range-runes", cnt)
	n, err := strconv.Atoi("8124")
	vObserve("atoi", n)
	vObserve("atoi-ok", err == nil)
	_, err = strconv.Atoi("12x")
	vObserve("atoi-err", err != nil)
	vObserve("rune-conv", string(rune(65)))
}

func VerifSelftestStructs() {
	p := stPoint{1, 2}
	q := p
	q.x = 9
	vObserve("value-copy", p.x)
	pp := &p
	pp.y = 7
	vObserve("pointer", p.y)
	r := stRect{2, 3}
	var sh stShape = r
	r.w = 100
	vObserve("iface-holds-copy", sh.Area())
	rp := &stRect{2, 3}
	rp.Scale(2)
	vObserve("ptr-method", rp.Area())
	sq := stSq{stRect{4, 4}}
	vObserve("embedded", sq.Area())
	f := rp.Area // bound method value captures *rp's copy? (value receiver: copied at evaluation)
	rp.w = 1
	vObserve("method-value", f())
	var np *stRect
	var ish stShape = np
	vObserve("typed-nil-iface", ish != nil)
	_, isRect := sh.(stRect)
	_, isPtr := sh.(*stRect)
	vObserve("type-assert", isRect && !isPtr)
	switch x := sh.(type) {
	case *stRect:
		vObserve("type-switch", "ptr")
	case stRect:
		vObserve("type-switch", x.h)
	}
	vObserve("struct-eq", stPoint{1, 2} == stPoint{1, 2} && stPoint{1, 2} != stPoint{2, 1})
}

func stDeferOrder(trace *[]int) (res int) {
	defer func() { *trace = append(*trace, 1); res *= 2 }()
	defer func() { *trace = append(*trace, 2) }()
	return 21
}

func stRecover() (out string) {
	defer func() {
		if r := recover(); r != nil {
			out = "recovered"
		}
	}()
	var m map[string]int
	m["x"] = 1
	return "not reached"
}

func stRepanic() (out string) {
	defer func() {
		r := recover()
		out = "outer:" + r.(string)
	}()
	func() {
		defer func() {
			recover()
			panic("second")
		}()
		panic("first")
	}()
	return "no"
}

func VerifSelftestControl() {
	var tr []int
	vObserve("named-result-defer", stDeferOrder(&tr))
	vObserve("defer-lifo", tr[0]*10+tr[1])
	vObserve("recover", stRecover())
	vObserve("repanic", stRepanic())
	var fs []func() int
	for i := 0; i < 3; i++ {
		fs = append(fs, func() int { return i * i }) // go 1.22: per-iteration variable
	}
	vObserve("closure-loopvar", fs[0]()+fs[1]()*10+fs[2]()*100)
	acc := 0
	add := func(d int) { acc += d }
	add(2)
	add(3)
	vObserve("closure-capture", acc)
outer:
	for i := 0; i < 3; i++ {
		for j := 0; j < 3; j++ {
			if j == 2 {
				continue outer
			}
			if i == 2 {
				break outer
			}
			acc += 10
		}
	}
	vObserve("labels", acc)
	e1 := errors.New("e")
	e2 := errors.New("e")
	vObserve("error-identity", e1 != e2 && errors.Is(e1, e1))
	var ifn interface{} = []int{1}
	vObserve("uncomparable-panics", vExpectPanic(func() { _ = ifn == ifn }))
	vObserve("div-zero-panics", vExpectPanic(func() { z := 0; _ = 1 / z }))
	vObserve("index-panics", vExpectPanic(func() { a := []int{1}; i := 3; _ = a[i] }))
	vObserve("nil-deref-panics", vExpectPanic(func() { var p *stPoint; _ = p.x }))
}

func VerifSelftestConcurrency() {
	ch := make(chan int, 2)
	ch <- 1
	ch <- 2
	close(ch)
	a, ok1 := <-ch
	b, ok2 := <-ch
	c, ok3 := <-ch
	vObserve("buffered-fifo-close", a*100+b*10+c)
	vObserve("ok-flags", ok1 && ok2 && !ok3)
	un := make(chan string)
	done := make(chan struct{})
	go func() {
		un <- "hello"
		close(done)
	}()
	vObserve("rendezvous", <-un)
	<-done
	var nilch chan int
	sel := 0
	select {
	case <-nilch:
		sel = 1
	default:
		sel = 2
	}
	vObserve("nil-chan-select-default", sel)
	vObserve("send-on-closed-panics", vExpectPanic(func() { ch <- 3 }))
	vObserve("close-closed-panics", vExpectPanic(func() { close(ch) }))
	var mu sync.Mutex
	var wg sync.WaitGroup
	total := 0
	for i := 1; i <= 3; i++ {
		wg.Add(1)
		go func() {
			defer wg.Done()
			mu.Lock()
			total += i
			mu.Unlock()
		}()
	}
	wg.Wait()
	vObserve("mutex-waitgroup", total)
	var once sync.Once
	cnt := 0
	for i := 0; i < 3; i++ {
		once.Do(func() { cnt++ })
	}
	vObserve("once", cnt)
	var at int32
	atomic.AddInt32(&at, 5)
	atomic.CompareAndSwapInt32(&at, 5, 9)
	atomic.CompareAndSwapInt32(&at, 5, 11)
	vObserve("atomics", int(atomic.LoadInt32(&at)))
	var rw sync.RWMutex
	rw.RLock()
	rw.RLock()
	rw.RUnlock()
	rw.RUnlock()
	rw.Lock()
	rw.Unlock()
	vObserve("rwmutex", true)
	res := make(chan int, 1)
	go func() {
		select {
		case v := <-un:
			res <- len(v)
		case <-done:
			res <- -1
		}
	}()
	vObserve("select-closed", <-res)
}

// repository cross-runs: the library's own test inputs through the real code
func VerifSelftestRepo() {
	nodes := []*RawNode{
		{id: 100, channel: &channel{}},
		{id: 101, channel: &channel{lastError: errors.New("some error")}},
		{id: 42, channel: &channel{}},
		{id: 99, channel: &channel{lastError: errors.New("some error")}},
	}
	OrderedBy(ID).Sort(nodes)
	vObserve("node-sort-id", int(nodes[0].id)*1000000+int(nodes[1].id)*1000+int(nodes[3].id))
	OrderedBy(LastNodeError, ID).Sort(nodes)
	vObserve("node-sort-err", int(nodes[0].id)*1000000+int(nodes[1].id)*1000+int(nodes[2].id))
	qe := QuorumCallError{cause: Incomplete, replies: 1}
	vObserve("qcerror-is", errors.Is(qe, Incomplete) && !errors.Is(qe, errors.New("x")) && errors.Is(qe, QuorumCallError{cause: Incomplete}))
	mgr := NewRawManager(WithNoConnect())
	c1, err := NewRawConfiguration(mgr, WithNodeMap(map[string]uint32{"127.0.0.1:9080": 1, "127.0.0.1:9081": 2, "127.0.0.1:9082": 3}))
	vObserve("config-map", err == nil && c1.Size() == 3)
	c2, err := NewRawConfiguration(mgr, c1.WithoutNodes(2))
	vObserve("config-without", err == nil && c2.Size() == 2 && c2.NodeIDs()[1] == 3)
	c3, err := NewRawConfiguration(mgr, c2.And(c1))
	vObserve("config-and", err == nil && c3.Size() == 3 && c3.Equal(c1))
	_, err = NewRawConfiguration(mgr, c1.Except(c1))
	vObserve("config-empty-rejected", err != nil)
	vObserve("mgr-size", mgr.Size())
}

// VerifSelftestPool is run in the engine only (the reuse of pooled objects is not guaranteed
// natively): the model reuses the most recently put object.
func VerifSelftestPool() {
	type box struct{ v int }
	pool := sync.Pool{New: func() interface{} { return &box{v: -1} }}
	a := pool.Get().(*box)
	a.v = 5
	pool.Put(a)
	b := pool.Get().(*box)
	vObserve("pool-get-after-put", b.v)
	var empty sync.Pool
	vObserve("pool-no-new", empty.Get() == nil)
}
