//go:build verif

package gorums

import (
	"errors"

	spb "google.golang.org/genproto/googleapis/rpc/status"
	"google.golang.org/protobuf/proto"
	"google.golang.org/protobuf/reflect/protoreflect"
	"google.golang.org/protobuf/reflect/protoregistry"

	"github.com/relab/gorums/ordering"
)

// C13 — the wire codec round-trips every message and never panics on any input.
//
// Executed for real: Codec.{Marshal,gorumsMarshal,Unmarshal,gorumsUnmarshal}, newMessage, the
// real protowire.{AppendVarint,ConsumeVarint,ConsumeBytes,SizeVarint}.
// Stubbed (contract: protobuf's own field-level codec round-trips; it is not encoded):
//   proto.MarshalOptions.{Size,MarshalAppend,Marshal}, proto.UnmarshalOptions.Unmarshal —
//     "ghost encoding": every message object m has a byte string enc(m) with *symbolic contents
//     and symbolic length* (0 <= len < 2^31); Size = len(enc(m)); MarshalAppend appends it;
//     Unmarshal(b, m) records (b, m) and fails nondeterministically or fills m as the harness
//     scripted it;
//   protoregistry.GlobalFiles.FindDescriptorByName / GlobalTypes.FindMessageByName — "" and
//     unknown names: NotFound; known names: a descriptor of the kind registered for that name
//     (any protoreflect.Descriptor may come back - the documented contract).

type vDecodeCall struct {
	buf []byte
	msg proto.Message
}

type vCodecWorld struct {
	enc      map[proto.Message][]byte
	decoded  []vDecodeCall
	failAt   int                // Unmarshal call index that fails (-1: none)
	mdResult *ordering.Metadata // what decoding a non-empty metadata buffer yields
	created  []*vMsg            // messages created through the types registry
}

var vCodec *vCodecWorld

var (
	vErrDecode   = errors.New("verif: proto: cannot parse invalid wire-format data")
	vErrNotFound = protoregistry.NotFound
)

//verif:stub (google.golang.org/protobuf/proto.MarshalOptions).Size
func vstubSize(o proto.MarshalOptions, m proto.Message) int { return len(vCodec.enc[m]) }

//verif:stub (google.golang.org/protobuf/proto.MarshalOptions).MarshalAppend
func vstubMarshalAppend(o proto.MarshalOptions, b []byte, m proto.Message) ([]byte, error) {
	return append(b, vCodec.enc[m]...), nil
}

//verif:stub (google.golang.org/protobuf/proto.MarshalOptions).Marshal
func vstubMarshal(o proto.MarshalOptions, m proto.Message) ([]byte, error) {
	return append([]byte(nil), vCodec.enc[m]...), nil
}

//verif:stub (google.golang.org/protobuf/proto.UnmarshalOptions).Unmarshal
func vstubUnmarshal(o proto.UnmarshalOptions, b []byte, m proto.Message) error {
	k := len(vCodec.decoded)
	vCodec.decoded = append(vCodec.decoded, vDecodeCall{buf: b, msg: m})
	if vCodec.failAt == k {
		return vErrDecode
	}
	if md, ok := m.(*ordering.Metadata); ok && len(b) != 0 && vCodec.mdResult != nil {
		// an empty buffer decodes to the empty message; anything else to what the script says
		md.MessageID, md.Method, md.Status = vCodec.mdResult.MessageID, vCodec.mdResult.Method, vCodec.mdResult.Status
	}
	return nil
}

// ---- puppet registry ----

type vMethodDesc struct {
	protoreflect.MethodDescriptor // nil: only Input/Output/FullName are used
	name                          protoreflect.FullName
	in, out                       *vMessageDesc
}

func (d *vMethodDesc) FullName() protoreflect.FullName        { return d.name }
func (d *vMethodDesc) Input() protoreflect.MessageDescriptor  { return d.in }
func (d *vMethodDesc) Output() protoreflect.MessageDescriptor { return d.out }

type vMessageDesc struct {
	protoreflect.MessageDescriptor
	name protoreflect.FullName
}

func (d *vMessageDesc) FullName() protoreflect.FullName { return d.name }

type vServiceDesc struct {
	protoreflect.ServiceDescriptor
	name protoreflect.FullName
}

func (d *vServiceDesc) FullName() protoreflect.FullName { return d.name }

type vEnumDesc struct {
	protoreflect.EnumDescriptor
	name protoreflect.FullName
}

func (d *vEnumDesc) FullName() protoreflect.FullName { return d.name }

type vFieldDesc struct {
	protoreflect.FieldDescriptor
	name protoreflect.FullName
}

func (d *vFieldDesc) FullName() protoreflect.FullName { return d.name }

var (
	vReqDesc  = &vMessageDesc{name: "verif.Request"}
	vRespDesc = &vMessageDesc{name: "verif.Response"}
	vMethod   = &vMethodDesc{name: "verif.Service.Method", in: vReqDesc, out: vRespDesc}
)

//verif:stub (*google.golang.org/protobuf/reflect/protoregistry.Files).FindDescriptorByName
func vstubFindDescriptorByName(r *protoregistry.Files, name protoreflect.FullName) (protoreflect.Descriptor, error) {
	switch name {
	case "verif.Service.Method":
		return vMethod, nil
	case "verif.Request":
		return vReqDesc, nil
	case "verif.Response":
		return vRespDesc, nil
	case "verif.Service":
		return &vServiceDesc{name: name}, nil
	case "verif.Enum":
		return &vEnumDesc{name: name}, nil
	case "verif.Request.field":
		return &vFieldDesc{name: name}, nil
	}
	return nil, vErrNotFound
}

type vMessageType struct {
	protoreflect.MessageType
	name protoreflect.FullName
}

func (t *vMessageType) New() protoreflect.Message {
	m := &vMsg{tok: 5000 + len(vCodec.created)}
	if t.name == "verif.Response" {
		m.node = 1 // tag: created as response type
	}
	vCodec.created = append(vCodec.created, m)
	return m.ProtoReflect()
}

//verif:stub (*google.golang.org/protobuf/reflect/protoregistry.Types).FindMessageByName
func vstubFindMessageByName(r *protoregistry.Types, name protoreflect.FullName) (protoreflect.MessageType, error) {
	if name == "verif.Request" || name == "verif.Response" {
		return &vMessageType{name: name}, nil
	}
	return nil, vErrNotFound
}

// ---- harness 1: framing round trip ----

// VerifC13RoundTrip: for metadata and payload encodings M, P with symbolic contents and
// symbolic lengths 0 <= |M|,|P| < 2^31 (all five varint size classes, the 127/128 and
// 16383/16384 boundaries included), Unmarshal(Marshal(msg)) hands exactly M to the metadata
// decoder and exactly P to the payload decoder, and creates the payload object from the
// method's Input() for requests and Output() for responses.
func VerifC13RoundTrip() {
	vCodec = &vCodecWorld{enc: map[proto.Message][]byte{}, failAt: -1}
	dir := vChoice("direction", 2)
	md := &ordering.Metadata{MessageID: vUint64("msgid"), Method: "verif.Service.Method"}
	payload := &vMsg{tok: 1}
	M := vBytes("M")
	P := vBytes("P")
	vAssume(len(M) > 0) // a metadata with a non-empty Method has a non-empty encoding
	vCodec.enc[md] = M
	vCodec.enc[payload] = P
	vCodec.mdResult = md
	codec := NewCodec()
	b, err := codec.Marshal(&Message{Metadata: md, Message: payload})
	vAssert(err == nil, "C13.marshal-error")
	// frame length: varint(|M|) + |M| + varint(|P|) + |P|
	vAssert(len(b) >= len(M)+len(P)+2, "C13.frame-too-short")
	mt := requestType
	if dir == 1 {
		mt = responseType
	}
	out := newMessage(mt)
	err = codec.Unmarshal(b, out)
	vAssert(err == nil, "C13.unmarshal-error-on-own-encoding")
	vAssert(len(vCodec.decoded) == 2, "C13.decoder-calls")
	vAssert(vCodec.decoded[0].msg == proto.Message(out.Metadata), "C13.metadata-target")
	vAssert(vBytesEqual(vCodec.decoded[0].buf, M), "C13.metadata-bytes")
	vAssert(vBytesEqual(vCodec.decoded[1].buf, P), "C13.payload-bytes")
	vAssert(out.Metadata.MessageID == md.MessageID && out.Metadata.Method == md.Method, "C13.metadata-roundtrip")
	vAssert(len(vCodec.created) == 1, "C13.payload-object-created")
	created := vCodec.created[0]
	vAssert(out.Message == protoreflect.ProtoMessage(created) && vCodec.decoded[1].msg == proto.Message(created), "C13.payload-target")
	vAssert((created.node == 1) == (dir == 1), "C13.payload-type-direction")
	if dir == 0 {
		vReach("request")
	} else {
		vReach("response")
	}
}

// ---- harness 2: hostile bytes ----

// VerifC13Hostile: b is an arbitrary buffer of symbolic length and contents; the metadata
// decoder's result for a non-empty metadata part is an arbitrary Metadata whose Method is the
// empty string, an unknown name, a registered method, or the name of a registered message,
// service, enum or field; either decoder may fail. Unmarshal returns an error or a message and
// never panics.
func VerifC13Hostile() {
	vCodec = &vCodecWorld{enc: map[proto.Message][]byte{}}
	vCodec.failAt = vChoice("decoderFails", 3) - 1
	names := []string{"", "verif.Nothing", "verif.Service.Method", "verif.Request", "verif.Service", "verif.Enum", "verif.Request.field"}
	method := names[vChoice("method", len(names))]
	vCodec.mdResult = &ordering.Metadata{MessageID: vUint64("msgid"), Method: method}
	b := vBytes("b")
	mt := gorumsMsgType(vChoice("msgtype", 4)) // 0 and 3 are invalid type tags
	out := &Message{Metadata: &ordering.Metadata{}, msgType: mt}
	codec := NewCodec()
	var err error
	panicked := vExpectPanic(func() { err = codec.Unmarshal(b, out) })
	vAssert(!panicked, "C13.unmarshal-panics")
	if err == nil {
		vReach("decoded")
		vAssert(method == "verif.Service.Method" && (mt == requestType || mt == responseType), "C13.accepts-non-method")
		vAssert(out.Message != nil, "C13.nil-message-without-error")
	} else {
		vReach("rejected")
	}
	// non-gorums values: plain proto messages pass through, everything else is an error
	var e2 error
	p2 := vExpectPanic(func() { e2 = codec.Unmarshal(b, 42) })
	vAssert(!p2 && e2 != nil, "C13.unmarshal-foreign-type")
	var e3 error
	p3 := vExpectPanic(func() { _, e3 = codec.Marshal("text") })
	vAssert(!p3 && e3 != nil, "C13.marshal-foreign-type")
}

// VerifC13Repeat: a process decodes many frames. A small concrete frame whose metadata names -
// by symbolic choice - nothing, an unknown name, a method, or a registered message / service /
// enum / field is offered three times in a row to the same codec, for every message type tag:
// whatever an earlier decode left behind (caches, pooled objects) must not change the
// treatment of the next one - no panic, the same verdict every time.
func VerifC13Repeat() {
	vCodec = &vCodecWorld{enc: map[proto.Message][]byte{}, failAt: -1}
	names := []string{"", "verif.Nothing", "verif.Service.Method", "verif.Request", "verif.Service", "verif.Enum", "verif.Request.field"}
	method := names[vChoice("method", len(names))]
	vCodec.mdResult = &ordering.Metadata{MessageID: 7, Method: method}
	mt := gorumsMsgType(vChoice("msgtype", 4))
	b := []byte{1, 0xAA, 2, 0xBB, 0xCC} // metadata part of 1 byte, payload part of 2 bytes
	codec := NewCodec()
	first := false
	for round := 0; round < 3; round++ {
		out := &Message{Metadata: &ordering.Metadata{}, msgType: mt}
		var err error
		panicked := vExpectPanic(func() { err = codec.Unmarshal(b, out) })
		vAssert(!panicked, "C13.unmarshal-panics")
		if round == 0 {
			first = err == nil
		} else {
			vAssert((err == nil) == first, "C13.decoding-not-repeatable")
		}
	}
	if first {
		vReach("repeat-decoded")
	} else {
		vReach("repeat-rejected")
	}
}

func VerifC13RepeatTwin()    { VerifC13Repeat(); vFail("C13.twin") }
func VerifC13RoundTripTwin() { VerifC13RoundTrip(); vFail("C13.twin") }
func VerifC13HostileTwin()   { VerifC13Hostile(); vFail("C13.twin") }

// VerifC13Native is only run natively (real protobuf, real registry): random metadata values
// round-trip through the real Codec with the registered method ordering.Gorums.NodeStream
// (input and output type ordering.Metadata), and random byte strings never make Unmarshal
// panic. It cross-validates the ghost-encoding stubs' contract against the implementation.
func VerifC13Native() {
	if vIsEngine() {
		return
	}
	codec := NewCodec()
	md := &ordering.Metadata{MessageID: vUint64("msgid"), Method: "ordering.Gorums.NodeStream"}
	txt := []byte(vSymString("text", int(vByte("n")%9)))
	for i := range txt {
		txt[i] = 'a' + txt[i]%26 // proto3 strings must be valid UTF-8
	}
	payload := &ordering.Metadata{MessageID: vUint64("payload"), Method: string(txt)}
	for dir := 0; dir < 2; dir++ {
		b, err := codec.Marshal(&Message{Metadata: md, Message: payload})
		vAssert(err == nil, "C13.native-marshal")
		mt := requestType
		if dir == 1 {
			mt = responseType
		}
		out := newMessage(mt)
		vAssert(codec.Unmarshal(b, out) == nil, "C13.native-unmarshal")
		vAssert(proto.Equal(out.Metadata, md) && proto.Equal(out.Message, payload), "C13.native-roundtrip")
		// truncations and corruptions of a valid frame, and names of non-method entities
		for cut := 0; cut <= len(b); cut++ {
			bb := append([]byte(nil), b[:cut]...)
			if cut > 0 {
				bb[int(vByte("pos"))%cut] ^= vByte("flip")
			}
			p := vExpectPanic(func() { _ = codec.Unmarshal(bb, newMessage(mt)) })
			vAssert(!p, "C13.native-unmarshal-panics")
		}
	}
	for _, name := range []string{"ordering.Metadata", "ordering.Gorums", "google.rpc.Status", "ordering", ""} {
		b, _ := codec.Marshal(&Message{Metadata: &ordering.Metadata{Method: name}, Message: payload})
		p := vExpectPanic(func() { _ = codec.Unmarshal(b, newMessage(requestType)) })
		vAssert(!p, "C13.native-unmarshal-panics")
	}
}

// ---- harness 4: boundary sizes with concrete lengths ----

// c13Sizes: encoded part sizes around the varint length-prefix boundaries (1|2 bytes at
// 127/128, 2|3 bytes at 16383/16384) plus the smallest ones.
var c13MDSizes = []int{30, 127, 128, 129, 16383, 16384}
var c13PayloadSizes = []int{0, 2, 127, 128, 129, 16383, 16384}

// VerifC13Sized: the round trip once more, with the two part lengths *concrete* (every pair of
// the boundary sizes above) and the contents symbolic. It does not depend on the engine's
// symbolic-length buffers, so it also decides implementations of the framing that index, patch
// or move bytes inside the frame (which VerifC13RoundTrip may have to give up on). The same
// choices drive a native body that builds real ordering.Metadata values with exactly those
// encoded sizes and sends them through the real protobuf codec - the replay of a counterexample.
func VerifC13Sized() {
	dir := vChoice("direction", 2)
	ms := c13MDSizes[vChoice("mdsize", len(c13MDSizes))]
	ps := c13PayloadSizes[vChoice("payloadsize", len(c13PayloadSizes))]
	mt := requestType
	if dir == 1 {
		mt = responseType
	}
	codec := NewCodec()
	if !vIsEngine() {
		c13SizedNative(codec, mt, ms, ps)
		return
	}
	vCodec = &vCodecWorld{enc: map[proto.Message][]byte{}, failAt: -1}
	md := &ordering.Metadata{MessageID: vUint64("msgid"), Method: "verif.Service.Method"}
	payload := &vMsg{tok: 1}
	M := make([]byte, ms)
	for i := range M {
		M[i] = vByte("M")
	}
	P := make([]byte, ps)
	for i := range P {
		P[i] = vByte("P")
	}
	vCodec.enc[md] = M
	vCodec.enc[payload] = P
	vCodec.mdResult = md
	b, err := codec.Marshal(&Message{Metadata: md, Message: payload})
	vAssert(err == nil, "C13.sized-marshal-error")
	out := newMessage(mt)
	err = codec.Unmarshal(b, out)
	vAssert(err == nil, "C13.sized-unmarshal-error-on-own-encoding")
	vAssert(len(vCodec.decoded) == 2, "C13.sized-decoder-calls")
	gotM, gotP := vCodec.decoded[0].buf, vCodec.decoded[1].buf
	vAssert(len(gotM) == ms, "C13.sized-metadata-length")
	vAssert(len(gotP) == ps, "C13.sized-payload-length")
	for i := range gotM {
		vAssert(gotM[i] == M[i], "C13.sized-metadata-bytes")
	}
	for i := range gotP {
		vAssert(gotP[i] == P[i], "C13.sized-payload-bytes")
	}
	vAssert(out.Metadata.MessageID == md.MessageID && out.Metadata.Method == md.Method, "C13.sized-metadata-roundtrip")
	vAssert(len(vCodec.created) == 1 && out.Message == protoreflect.ProtoMessage(vCodec.created[0]), "C13.sized-payload-target")
	vReach("sized")
}

func VerifC13SizedTwin() { VerifC13Sized(); vFail("C13.twin") }

// c13Pad returns a string s such that set(s) makes the message's encoded size exactly target.
func c13Pad(m proto.Message, set func(string), target int) bool {
	set("")
	base := proto.Size(m)
	if base == target {
		return true
	}
	for n := target - base; n >= 0 && n > target-base-12; n-- {
		b := make([]byte, n)
		for i := range b {
			b[i] = 'a' + byte(i%26)
		}
		set(string(b))
		if proto.Size(m) == target {
			return true
		}
	}
	return false
}

func c13SizedNative(codec *Codec, mt gorumsMsgType, ms, ps int) {
	md := &ordering.Metadata{MessageID: 1, Method: "ordering.Gorums.NodeStream"}
	if !c13Pad(md, func(s string) {
		md.Status = nil
		if s != "" {
			md.Status = &spb.Status{Code: 5, Message: s}
		}
	}, ms) {
		vAssume(false) // no metadata value of that encoded size
	}
	payload := &ordering.Metadata{}
	if ps > 0 {
		payload.MessageID = 1
	}
	if !c13Pad(payload, func(s string) { payload.Method = s }, ps) {
		vAssume(false)
	}
	b, err := codec.Marshal(&Message{Metadata: md, Message: payload})
	vAssert(err == nil, "C13.sized-marshal-error")
	out := newMessage(mt)
	err = codec.Unmarshal(b, out)
	vAssert(err == nil, "C13.sized-unmarshal-error-on-own-encoding")
	vAssert(proto.Equal(out.Metadata, md), "C13.sized-metadata-native")
	vAssert(proto.Equal(out.Message, payload), "C13.sized-payload-native")
	vReach("sized")
}
