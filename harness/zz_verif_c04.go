//go:build verif

package gorums

import (
	"context"
	"errors"

	"google.golang.org/grpc"
	"google.golang.org/grpc/codes"
	"google.golang.org/grpc/peer"
	"google.golang.org/grpc/status"

	"github.com/relab/gorums/ordering"
)

// C04 / C03 (server half) — orderingServer.NodeStream with a puppet server stream.
//
// Symbolic: per request the handler behaviour (return / release early / release twice /
// release from a helper goroutine / never release / return a status error / unknown method),
// number of connections, whether and when a connection is torn down; all interleavings of the
// receive loops, handlers, helper goroutines and reply goroutines.
//
// Executed for real: NewServer, RegisterHandler, orderingServer.NodeStream, ServerCtx.Release,
// SendMessage, WrapMessage (real grpc/status code), sync.Once (real code).
// The handler wrapper mirrors the generated one (template_server.go): type-assert the request,
// defer ctx.Release(), call the implementation, SendMessage(WrapMessage(...)).

var (
	vErrDisconnected = errors.New("verif: client disconnected")
	vErrPlain        = errors.New("verif plain failure")
)

type vSrvStream struct {
	grpc.ServerStream // nil: only Context/SendMsg/RecvMsg are used by the library
	ctx               context.Context
	conn              int
	script            []*Message
	next              int
	sent              []*Message
	g                 *c04Ghost
}

func (s *vSrvStream) Context() context.Context          { return s.ctx }
func (s *vSrvStream) Send(*ordering.Metadata) error     { panic("unused") }
func (s *vSrvStream) Recv() (*ordering.Metadata, error) { panic("unused") }

func (s *vSrvStream) RecvMsg(m interface{}) error {
	if s.next >= len(s.script) {
		<-s.ctx.Done() // no more requests: blocks until the client disconnects
		return vErrDisconnected
	}
	select {
	case <-s.ctx.Done():
		return vErrDisconnected
	default:
	}
	r := s.script[s.next]
	s.next++
	out := m.(*Message)
	vAssert(out.msgType == requestType, "C13.server-creates-request-type")
	// what the codec does (gorumsUnmarshal): the metadata is decoded INTO the message's
	// metadata object, the payload is a fresh message
	vDecodeMetadataInto(out, r.Metadata)
	out.Message = r.Message
	return nil
}

func (s *vSrvStream) SendMsg(m interface{}) error {
	select {
	case <-s.ctx.Done():
		return vErrDisconnected
	default:
	}
	s.sent = append(s.sent, m.(*Message))
	return nil
}

type c04Ghost struct {
	active     []int // per connection: handlers entered and not yet released
	started    []int // per connection: number of handlers started
	startedReq [][]bool
	released   [][]bool
	behaviour  [][]int
	finished   [][]bool
	codes      [][]uint32
	callbacks  []int
	overlap    bool
	streams    []*vSrvStream
}

const (
	c04Return = iota
	c04ReleaseEarly
	c04ReleaseTwice
	c04ReleaseHelper
	c04StatusError
	c04PlainError
	c04NeverRelease
	c04UnknownMethod
	c04NBehaviours
)

func VerifC04(conns, reqs, allowNever, allowDisconnect int) {
	g := &c04Ghost{active: make([]int, conns), started: make([]int, conns), callbacks: make([]int, conns)}
	srv := NewServer(WithConnectCallback(func(ctx context.Context) {
		c := ctx.Value(vConnKey{}).(int)
		g.callbacks[c]++
	}))
	streams := make([]*vSrvStream, conns)
	cancels := make([]context.CancelFunc, conns)
	never := make([]bool, conns)
	expectHandled := make([]int, conns)
	for c := 0; c < conns; c++ {
		g.startedReq = append(g.startedReq, make([]bool, reqs))
		g.released = append(g.released, make([]bool, reqs))
		g.finished = append(g.finished, make([]bool, reqs))
		g.codes = append(g.codes, make([]uint32, reqs))
		g.behaviour = append(g.behaviour, make([]int, reqs))
		// every client has the SAME peer address string, as over bufconn or unnamed unix
		// sockets: connections are told apart by their streams, not by what the peer calls itself
		pctx := peer.NewContext(context.Background(), &peer.Peer{Addr: vPeerAddr{}})
		ctx, cancel := context.WithCancel(context.WithValue(pctx, vConnKey{}, c))
		cancels[c] = cancel
		st := &vSrvStream{ctx: ctx, conn: c, g: g}
		for k := 0; k < reqs; k++ {
			nb := c04NeverRelease
			if allowNever == 1 {
				nb = c04NBehaviours
			}
			b := vChoice("behaviour", nb)
			if b == c04NeverRelease {
				if never[c] {
					vAssume(false) // one is enough: nothing after it can start
				}
				never[c] = true
			}
			g.behaviour[c][k] = b
			method := "verif.Handler"
			if b == c04UnknownMethod {
				method = "verif.Unknown"
			} else if !never[c] || b == c04NeverRelease {
				expectHandled[c]++
			}
			st.script = append(st.script, &Message{Metadata: &ordering.Metadata{MessageID: uint64(100*c + k + 1), Method: method}, Message: &vMsg{tok: k, node: uint32(c)}})
		}
		streams[c] = st
	}
	g.streams = streams
	srv.RegisterHandler("verif.Handler", func(ctx ServerCtx, in *Message, finished chan<- *Message) {
		req := in.Message.(*vMsg)
		defer ctx.Release()
		resp, err := c04Impl(g, ctx, req)
		SendMessage(ctx, finished, WrapMessage(in.Metadata, resp, err))
	})
	results := make([]error, conns)
	returned := make([]bool, conns)
	for c := 0; c < conns; c++ {
		c := c
		go func() {
			results[c] = srv.srv.NodeStream(streams[c])
			returned[c] = true
		}()
	}
	if allowDisconnect == 2 {
		// a further service is registered while the server is serving (generated
		// Register...Server calls after Serve has started): at any point of the run; it
		// must not delay anybody's requests, whatever the handlers are doing
		go srv.RegisterHandler("verif.Late", func(ctx ServerCtx, in *Message, finished chan<- *Message) {})
	}
	disconnected := make([]bool, conns)
	if allowDisconnect == 1 {
		for c := 0; c < conns; c++ {
			if vChoice("disconnect", 2) == 1 {
				disconnected[c] = true
				cancels[c]() // at any point of the run
			}
		}
	}
	vFreezeEnv()
	vQuiescent()
	for c := 0; c < conns; c++ {
		vAssert(g.callbacks[c] == 1, "C10.connect-callback-once")
		if disconnected[c] {
			vReach("disconnected")
			vAssert(returned[c], "C04.stream-does-not-end-after-disconnect")
			continue
		}
		// every request whose predecessors released has been handled, exactly once, in order
		vAssert(g.started[c] == expectHandled[c], "C03.server-not-all-handled|C04.request-delayed-although-predecessors-released|C09.server-stops-serving-a-connection")
		vAssert(!returned[c], "C04.stream-ended-early")
		// replies: one per replying handler, under its own message id, with its status
		nreplies := 0
		for k := 0; k < reqs; k++ {
			b := g.behaviour[c][k]
			if !g.startedReq[c][k] || b == c04NeverRelease || b == c04UnknownMethod {
				continue
			}
			nreplies++
			id := uint64(100*c + k + 1)
			found := 0
			for _, m := range streams[c].sent {
				if m.Metadata.MessageID == id {
					found++
					st := status.FromProto(m.Metadata.GetStatus())
					if b == c04PlainError {
						// a non-status error arrives as Unknown with its text
						vAssert(st.Code() == codes.Unknown && st.Message() == "verif plain failure", "C13.plain-error-wrapped")
					} else if b == c04StatusError {
						// any status code (a symbolic 32 bit value) travels unchanged; OK means "no error"
						vAssert(st.Code() == codes.Code(g.codes[c][k]), "C13.handler-status-code")
						vAssert(g.codes[c][k] == 0 || st.Message() == "verif denied", "C13.handler-status-message")
						r, _ := m.Message.(*vMsg)
						vAssert(r == nil, "C04.error-reply-payload")
					} else {
						vAssert(st.Code() == codes.OK, "C13.ok-status-wrapped")
						r, ok := m.Message.(*vMsg)
						vAssert(ok && r.tok == 1000+k && r.node == uint32(c), "C04.reply-routing|C05.reply-with-a-foreign-payload|C01.reply-of-another-request")
					}
				}
			}
			vAssert(found == 1, "C04.reply-count|C05.reply-under-a-foreign-message-id|C01.reply-of-another-request")
		}
		// a request for a method nobody registered may be ignored or answered with an error
		// status under its own message id - never with a success, never twice
		for k := 0; k < reqs; k++ {
			if g.behaviour[c][k] != c04UnknownMethod {
				continue
			}
			id := uint64(100*c + k + 1)
			n := 0
			for _, m := range streams[c].sent {
				if m.Metadata.MessageID == id {
					n++
					vAssert(status.FromProto(m.Metadata.GetStatus()).Code() != codes.OK, "C04.unknown-method-answered-with-success")
				}
			}
			vAssert(n <= 1, "C04.reply-count|C05.reply-under-a-foreign-message-id|C01.reply-of-another-request")
			nreplies += n
		}
		vAssert(len(streams[c].sent) == nreplies, "C04.spurious-reply|C05.reply-nobody-asked-for")
	}
	if g.overlap {
		vReach("released-handler-overlaps-next")
	}
	vReach("end")
}

type vConnKey struct{}

type vPeerAddr struct{}

func (vPeerAddr) Network() string { return "bufconn" }
func (vPeerAddr) String() string  { return "bufconn" }

// c04Impl is the "user" handler: its behaviour is chosen per request by the harness.
func c04Impl(g *c04Ghost, ctx ServerCtx, req *vMsg) (*vMsg, error) {
	c, k := int(req.node), req.tok
	// The entry of a handler is an event of its own: which of two handler goroutines that
	// were both started gets to run first is up to the scheduler (without this scheduling
	// point the engine would run the entry code of the goroutine started first, first).
	vAtomic(1, g)
	// C04: at most one handler per connection has entered and not yet released
	vAssert(g.active[c] == 0, "C04.handler-started-before-release")
	// C03 (server half): started in arrival order, at most once
	vAssert(!g.startedReq[c][k], "C03.server-handler-started-twice")
	for j := 0; j < k; j++ {
		if g.behaviour[c][j] != c04UnknownMethod {
			vAssert(g.startedReq[c][j], "C03.server-order")
			if !g.released[c][j] {
				vFail("C04.handler-started-before-release")
			} else if !vHandlerDone(g, c, j) {
				g.overlap = true
			}
		}
	}
	g.startedReq[c][k] = true
	g.started[c]++
	g.active[c]++
	vAtomicEnd()
	release := func() {
		if !g.released[c][k] {
			g.released[c][k] = true
			g.active[c]--
		}
	}
	resp := &vMsg{tok: 1000 + k, node: uint32(c)}
	switch g.behaviour[c][k] {
	case c04Return:
		release() // implicit release by the wrapper's deferred Release
		g.done(c, k)
		return resp, nil
	case c04ReleaseEarly:
		release()
		ctx.Release()
		c04WorkOn(g)
		g.done(c, k)
		return resp, nil
	case c04ReleaseTwice:
		release()
		ctx.Release()
		ctx.Release()
		c04WorkOn(g)
		g.done(c, k)
		return resp, nil
	case c04ReleaseHelper:
		release()
		donech := make(chan struct{})
		go func() {
			ctx.Release()
			close(donech)
		}()
		ctx.Release() // concurrently from the handler goroutine too
		<-donech
		c04WorkOn(g)
		g.done(c, k)
		return resp, nil
	case c04PlainError:
		release()
		g.done(c, k)
		return nil, vErrPlain
	case c04StatusError:
		release()
		g.done(c, k)
		g.codes[c][k] = vUint32("code")
		return nil, status.Error(codes.Code(g.codes[c][k]), "verif denied")
	default: // never release: block until the connection goes away
		<-ctx.Done()
		release()
		g.done(c, k)
		return resp, nil
	}
}

func (g *c04Ghost) done(c, k int) { g.finished[c][k] = true }

// c04WorkOn: a handler that released early goes on working; what it does afterwards
// (building the reply from the request it was handed) happens at any later time, also
// after the receive loop has taken the next request off the stream.
func c04WorkOn(g *c04Ghost) {
	vAtomic(1, g)
	vAtomicEnd()
}

// vHandlerDone: the wrapper of handler j has handed its reply to the stream (handlers that
// send no reply count as done when their implementation returned).
func vHandlerDone(g *c04Ghost, c, j int) bool {
	b := g.behaviour[c][j]
	if b == c04NeverRelease || b == c04UnknownMethod {
		return g.finished[c][j]
	}
	id := uint64(100*c + j + 1)
	for _, m := range g.streams[c].sent {
		if m.Metadata.MessageID == id {
			return true
		}
	}
	return false
}

func VerifC04Twin(conns, reqs, allowNever, allowDisconnect int) {
	VerifC04(conns, reqs, allowNever, allowDisconnect)
	vFail("C04.twin")
}
