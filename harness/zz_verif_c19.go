//go:build verif

package gorums

import (
	"errors"
)

// C19 — node sorters order by their keys.
//
// Symbolic per node: id (32 bits), port (1..5 symbolic decimal digits), last error or not.
// Executed for real: OrderedBy, MultiSorter.{Sort,Len,Swap,Less}, ID/Port/LastNodeError,
// RawNode.Port, channel.lastErr, sort.Sort (pdqsort/insertion sort), strconv.Atoi.
// Stubbed: net.SplitHostPort (canonical "host:port" literals only).

type c19Ghost struct {
	id     uint32
	port   int
	hasErr bool
}

var vErrC19 = errors.New("verif: last error")

// vC19Node builds a node with symbolic id, port digits and error flag.
func vC19Node(tag string, maxDigits int) (*RawNode, c19Ghost) {
	g := c19Ghost{id: vUint32(tag + ".id"), hasErr: vBool(tag + ".err")}
	nd := 1 + vChoice(tag+".ndigits", maxDigits)
	digits := vSymString(tag+".port", nd)
	for i := 0; i < nd; i++ {
		vAssume(digits[i] >= '0' && digits[i] <= '9')
		g.port = g.port*10 + int(digits[i]-'0')
	}
	n := &RawNode{id: g.id, addr: "127.0.0.1:" + digits, channel: &channel{}}
	if g.hasErr {
		n.channel.lastError = vErrC19
	}
	return n, g
}

func c19SpecKey(k int, a, b c19Ghost) bool {
	switch k {
	case 0:
		return a.id < b.id
	case 1:
		return a.port < b.port
	default:
		return !a.hasErr && b.hasErr
	}
}

func c19Key(k int) lessFunc {
	switch k {
	case 0:
		return ID
	case 1:
		return Port
	default:
		return LastNodeError
	}
}

var c19KeyNames = [...]string{"ID", "Port", "LastNodeError"}

// specLess: lexicographic order by the key sequence.
func c19SpecLess(keys []int, a, b c19Ghost) bool {
	for _, k := range keys {
		if c19SpecKey(k, a, b) {
			return true
		}
		if c19SpecKey(k, b, a) {
			return false
		}
	}
	return false
}

// VerifC19SWO: each provided key is a strict weak ordering (3 symbolic nodes).
func VerifC19SWO(maxDigits int) {
	k := vChoice("key", 3)
	less := c19Key(k)
	a, ga := vC19Node("a", maxDigits)
	b, gb := vC19Node("b", maxDigits)
	c, gc := vC19Node("c", maxDigits)
	name := c19KeyNames[k]
	strictKnown := vKnown("F-C19-strict", k == 2)
	_ = strictKnown
	// the key computes its documented comparison
	vAssert(less(a, b) == c19SpecKey(k, ga, gb), "C19.key-meaning."+name)
	// irreflexive
	vAssert(!less(a, a), "C19.irreflexive."+name)
	// asymmetric
	vAssert(!(less(a, b) && less(b, a)), "C19.asymmetric."+name)
	// transitive
	if less(a, b) && less(b, c) {
		vAssert(less(a, c), "C19.transitive."+name)
	}
	// incomparability is transitive
	if !less(a, b) && !less(b, a) && !less(b, c) && !less(c, b) {
		vAssert(!less(a, c) && !less(c, a), "C19.incomparability-transitive."+name)
	}
	_, _, _ = ga, gb, gc
	vReach("swo-" + name)
}

// VerifC19Less: MultiSorter.Less equals the lexicographic specification for every key
// sequence of length 1..maxKeys on two symbolic nodes.
func VerifC19Less(maxKeys, maxDigits int) {
	nk := 1 + vChoice("nkeys", maxKeys)
	keys := make([]int, nk)
	fs := make([]lessFunc, nk)
	usesErr := false
	for i := range keys {
		keys[i] = vChoice("key", 3)
		fs[i] = c19Key(keys[i])
		if keys[i] == 2 {
			usesErr = true
		}
	}
	vKnown("F-C19-strict", usesErr)
	a, ga := vC19Node("a", maxDigits)
	b, gb := vC19Node("b", maxDigits)
	ms := OrderedBy(fs...)
	ms.nodes = []*RawNode{a, b}
	vAssert(ms.Less(0, 1) == c19SpecLess(keys, ga, gb), "C19.less-lexicographic")
	vAssert(ms.Less(1, 0) == c19SpecLess(keys, gb, ga), "C19.less-lexicographic-rev")
	vAssert(!ms.Less(0, 0), "C19.less-irreflexive")
	vReach("less")
}

// VerifC19Sort: Sort returns a permutation without adjacent inversion under the
// lexicographic specification, for n symbolic nodes and every key sequence.
func VerifC19Sort(nmax, maxKeys, maxDigits int) {
	n := 1 + vChoice("n", nmax)
	nk := 1 + vChoice("nkeys", maxKeys)
	keys := make([]int, nk)
	fs := make([]lessFunc, nk)
	usesErr := false
	for i := range keys {
		keys[i] = vChoice("key", 3)
		fs[i] = c19Key(keys[i])
		if keys[i] == 2 {
			usesErr = true
		}
	}
	vKnown("F-C19-strict", usesErr)
	nodes := make([]*RawNode, n)
	orig := make([]*RawNode, n)
	ghost := map[*RawNode]c19Ghost{}
	for i := range nodes {
		var g c19Ghost
		nodes[i], g = vC19Node("n"+string(rune('0'+i)), maxDigits)
		orig[i] = nodes[i]
		ghost[nodes[i]] = g
	}
	OrderedBy(fs...).Sort(nodes)
	vAssert(len(nodes) == n, "C19.sort-length")
	// permutation: every original node appears exactly once
	for _, o := range orig {
		cnt := 0
		for _, x := range nodes {
			if x == o {
				cnt++
			}
		}
		vAssert(cnt == 1, "C19.sort-permutation")
	}
	for i := 0; i+1 < n; i++ {
		vAssert(!c19SpecLess(keys, ghost[nodes[i+1]], ghost[nodes[i]]), "C19.sort-ordered")
	}
	vReach("sorted")
}

// VerifC19PortKey: the Port key on the whole port range. Two nodes whose ports have exactly nd
// symbolic decimal digits (values up to 65535, leading zeros included): Port(a, b) is the
// numeric comparison. (The three-node harness above bounds the digits more tightly in the
// quick tier; boundaries such as 32767/32768 or 9999/10000 need five digits.)
func VerifC19PortKey(nd int) {
	mk := func(tag string) (*RawNode, int) {
		digits := vSymString(tag+".port", nd)
		port := 0
		for i := 0; i < nd; i++ {
			vAssume(digits[i] >= '0' && digits[i] <= '9')
			port = port*10 + int(digits[i]-'0')
		}
		vAssume(port <= 65535)
		// the host is an IPv4 literal, a name, or a bracketed IPv6 literal (colons inside)
		host := []string{"127.0.0.1", "node-a.example.org", "[::1]", "[fe80::1:2]"}[vChoice(tag+".host", 4)]
		return &RawNode{id: 1, addr: host + ":" + digits, channel: &channel{}}, port
	}
	a, pa := mk("a")
	b, pb := mk("b")
	vAssert(Port(a, b) == (pa < pb), "C19.key-meaning.Port")
	vAssert(Port(b, a) == (pb < pa), "C19.key-meaning.Port")
	vReach("port-key")
}

func VerifC19PortKeyTwin(nd int)    { VerifC19PortKey(nd); vFail("C19.twin") }
func VerifC19SWOTwin(maxDigits int) { VerifC19SWO(maxDigits); vFail("C19.twin") }
func VerifC19LessTwin(maxKeys, maxDigits int) {
	VerifC19Less(maxKeys, maxDigits)
	vFail("C19.twin")
}
func VerifC19SortTwin(nmax, maxKeys, maxDigits int) {
	VerifC19Sort(nmax, maxKeys, maxDigits)
	vFail("C19.twin")
}
