//go:build verif

package gorums

import (
	spb "google.golang.org/genproto/googleapis/rpc/status"
	"google.golang.org/grpc/codes"
	"google.golang.org/protobuf/reflect/protoreflect"
)

// C05 — replies reach only the call that asked, under the right node, at most once.
//
// World: 1 thin node (id 1) + 1 full-stack node (id 2) - the shared node is deliberately NOT the
// first member of configuration A. Two calls issued from two goroutines on overlapping
// configurations: A on {1,2} (quorum call or async), B on {2} (RPC or quorum call). The puppet peer answers any arrived message at any time, in any order, possibly a
// second time (duplicate), possibly after the call has returned or was cancelled. Every reply
// is stamped with the token of the request that caused it and the producing node.

func c05CheckSeen(c *fsCall) {
	for id, m := range c.seen {
		r, ok := m.(*vMsg)
		vAssert(ok && r != nil, "C05.reply-type")
		// (an assertion id may name several properties, separated by '|')
		vAssert(r.reqTok == c.req.tok, "C05.reply-for-another-call|C01.reply-set-holds-foreign-reply")
		vAssert(r.node == id, "C05.reply-under-wrong-node")
		vAssert(c.seenCount[id] == 1, "C05.more-than-one-reply-per-node")
	}
}

func VerifC05(maxMsgs, allowCancel, small int) {
	vFullStackFirstID, vThinFirstID = 2, 1
	w := vMixed(1, 1, nil)
	vFullStackFirstID, vThinFirstID = 0, 0
	p := w.peers[0]
	full, thinID := w.nodes[0].id, w.nodes[1].id
	kindA := ckQC
	kindB := ckRPC
	quorumA := 2
	if small != 1 {
		if vChoice("kindA", 2) == 1 {
			kindA = ckAsync
		}
		if vChoice("kindB", 2) == 1 {
			kindB = ckQC
		}
		quorumA = 1 + vChoice("quorumA", 2)
	}
	a := fsNewCall(kindA, 1, quorumA)
	b := fsNewCall(kindB, 2, 1)
	cfgB, err := NewRawConfiguration(w.mgr, WithNodeIDs([]uint32{full}))
	vAssert(err == nil, "C14.withnodeids")
	// scripted server: per written message reply / reply twice / hold until the next message
	// (reordering) / stay silent
	var held *vArrived
	nmsgs := 0
	answeredN := 0
	p.behave = func(p *vPeer, x *vArrived) {
		nmsgs++
		vAssert(nmsgs <= maxMsgs, "C03.message-written-twice")
		switch vChoice("behave", 4) {
		case 0:
			answeredN++
			p.reply(x, vStamp(p, x, 1), nil)
		case 1: // duplicate (the second copy may be read long after the call ended)
			answeredN++
			p.reply(x, vStamp(p, x, 1), nil)
			p.reply(x, vStamp(p, x, 2), nil)
		case 2: // hold: released after the next message's reply (replies out of order)
			if held != nil {
				vAssume(false)
			}
			held = x
			return
		case 3: // silent
		}
		if held != nil {
			answeredN++
			p.reply(held, vStamp(p, held, 3), nil)
			held = nil
		}
	}
	go a.run(w, w.cfg)
	go b.run(w, cfgB)
	if allowCancel == 1 && vChoice("cancelA", 2) == 1 {
		go a.cancel() // at any point of the run
	}
	if small == 1 || vChoice("thinAnswers", 2) == 1 {
		go func() {
			r := <-w.nodes[1].channel.sendQ
			w.nodes[1].channel.routeResponse(r.msg.Metadata.MessageID, response{nid: thinID, msg: &vMsg{tok: 1002, node: thinID, reqTok: a.req.tok}})
		}()
	}
	vFreezeEnv()
	vQuiescent()
	c05CheckSeen(a)
	c05CheckSeen(b)
	if a.returned && a.err == nil {
		vReach("A-success")
	}
	if b.returned && b.err == nil {
		vReach("B-success")
		if kindB == ckRPC {
			r, ok := b.resp.(*vMsg)
			vAssert(ok && r.reqTok == b.req.tok && r.node == full, "C05.rpc-got-foreign-reply")
		}
	}
	// message ids handed out by one manager are pairwise distinct
	for i := 0; i < len(p.wire); i++ {
		for j := i + 1; j < len(p.wire); j++ {
			vAssert(p.wire[i].Metadata.MessageID != p.wire[j].Metadata.MessageID, "C05.message-id-reused|C01.calls-sharing-a-node-not-separated")
		}
		// and each request arrived with its own payload
		r, ok := p.wire[i].Message.(*vMsg)
		vAssert(ok && (r == a.req || r == b.req), "C06.payload")
	}
	if answeredN >= 2 {
		vReach("both-answered")
	}
	_ = protoreflect.ProtoMessage(nil)
}

func VerifC05Twin(maxMsgs, allowCancel, small int) {
	VerifC05(maxMsgs, allowCancel, small)
	vFail("C05.twin")
}

// VerifC05Late: a reply that arrives after its call has returned is discarded and never
// observed by another call - also when it arrives WHILE a later call is collecting replies.
// Call A (rpc / quorum call / async / correctable) is cancelled after its request reached the
// peer, which holds the answer back. Call B (same four kinds, live context) is issued and its
// request written. Only now the peer answers A's request: B must not move - its quorum
// function must not run, nothing may be returned. Then the peer answers B's request: B
// completes with exactly that reply. (Reply channels or routing entries recycled between
// calls - pools, free lists, reused ids - show up here.)
func VerifC05Late() {
	w := vFullStack(1, []bool{true})
	p := w.peers[0]
	kinds := []int{ckRPC, ckQC, ckAsync, ckCorrectable}
	ka := kinds[vChoice("first", len(kinds))]
	kb := kinds[vChoice("second", len(kinds))]
	a := fsNewCall(ka, 1, 1)
	go a.run(w, w.cfg)
	vQuiescent() // A's request is on the wire, the peer is silent
	xa := p.take()
	vAssert(xa != nil, "C06.request-not-delivered")
	firstFails := vChoice("first-ends", 2) == 1
	if firstFails {
		// variant: A's handler fails - the reply carries an error status with text and a
		// detail; A ends with that error. Nothing of it may stick to the node's later replies.
		vReach("first-call-handler-error")
		st := &spb.Status{Code: int32(codes.NotFound), Message: "verif: no such key"}
		vAssert(p.reply(xa, nil, st), "harness.inbox-full")
		vQuiescent()
		vAssert(a.issued && a.returned && a.err != nil, "C07.handler-error-not-reported")
	} else {
		a.cancel()
		vQuiescent()
		vAssert(a.issued && a.returned && a.err != nil, "C08.result-not-available-after-context-end")
	}
	vAssert(len(a.seen) == 0, "C05.reply-nobody-sent")
	b := fsNewCall(kb, 2, 1)
	go b.run(w, w.cfg)
	vQuiescent() // B's request is on the wire
	xb := p.take()
	vAssert(xb != nil, "C06.request-not-delivered")
	if !firstFails {
		// the late reply to A arrives while B waits
		late := vStamp(p, xa, 0)
		vAssert(p.reply(xa, late, nil), "harness.inbox-full")
		vFreezeEnv()
		vQuiescent()
		vReach("late-reply-while-another-call-waits")
		vAssert(len(b.seen) == 0, "C05.late-reply-observed-by-another-call|C01.reply-of-another-request-in-the-reply-set|C02.outcome-from-a-reply-no-targeted-node-sent")
		vAssert(!b.returned, "C05.late-reply-observed-by-another-call|C02.returned-before-any-node-answered")
	}
	// now B's own reply
	own := vStamp(p, xb, 1)
	vAssert(p.reply(xb, own, nil), "harness.inbox-full")
	vFreezeEnv()
	vQuiescent()
	vAssert(b.issued && b.returned, "C09.later-call-not-answered")
	vAssert(b.err == nil, "C05.own-reply-lost-or-error-of-another-call-observed|C02.error-although-quorum|C07.successful-reply-reported-as-node-error|C13.status-of-an-earlier-reply-reaches-the-caller")
	vAssert(len(b.seen) == 1 && b.seen[w.nodes[0].id] == protoreflect.ProtoMessage(own), "C05.reply-not-genuine|C01.reply-of-another-request-in-the-reply-set")
	vAssert(w.routersLeft() == 0, "C18.routing-entry-left")
	vReach("second-call-answered")
}

func VerifC05LateTwin() { VerifC05Late(); vFail("C05.twin") }
