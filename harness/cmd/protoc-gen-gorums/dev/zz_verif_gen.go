//go:build verif

package dev

import (
	"context"
	"errors"

	"github.com/relab/gorums"
	"google.golang.org/protobuf/reflect/protoreflect"
)

// Generated wrappers (C01 / C06 / C11 on top of the runtime): the *generated* client stubs of
// package dev — quorum calls, async futures and correctables with per-node arguments and custom
// return types — run on the thin transport. The quorum functions of a puppet QuorumSpec are
// havoc (fresh typed value, symbolic verdict / level). Checked: the typed result is
// pointer-identical to the quorum function's value (custom return type included, no type
// assertion panics), the typed reply map holds the very reply objects the nodes produced, the
// per-node function receives the caller's typed request and the node's id, typed accessors of
// futures and correctables never panic at any observation point.

type vProtoReflect struct {
	protoreflect.Message // nil
	valid                bool
}

func (r vProtoReflect) IsValid() bool { return r.valid }

// Generated ProtoReflect goes through unsafe/impl; the library only asks IsValid.
//
//verif:stub (*github.com/relab/gorums/cmd/protoc-gen-gorums/dev.Request).ProtoReflect
func vstubRequestProtoReflect(x *Request) protoreflect.Message { return vProtoReflect{valid: x != nil} }

type genGhost struct {
	n        int
	req      *Request
	stamped  []*Response
	own      []*Request
	skip     []bool
	perNode  bool
	qfCalls  int
	quorum   bool
	val      *Response
	myVal    *MyResponse
	level    int
	pubLevel int
	pubVal   *Response
	pubMy    *MyResponse
}

type vQSpec struct {
	QuorumSpec // nil: only the quorum functions below are used
	g          *genGhost
}

func (q *vQSpec) checkReplies(in *Request, replies map[uint32]*Response) {
	g := q.g
	vAssert(in == g.req, "C01.qf-request-identity")
	for id, r := range replies {
		i := int(id) - 1
		vAssert(i >= 0 && i < g.n && g.stamped[i] != nil && r == g.stamped[i], "C01.qf-reply-genuine")
	}
	g.qfCalls++
}

func (q *vQSpec) plain(in *Request, replies map[uint32]*Response) (*Response, bool) {
	q.checkReplies(in, replies)
	q.g.val = &Response{Result: int64(q.g.qfCalls)}
	q.g.quorum = vBool("quorum")
	return q.g.val, q.g.quorum
}

func (q *vQSpec) custom(in *Request, replies map[uint32]*Response) (*MyResponse, bool) {
	q.checkReplies(in, replies)
	q.g.myVal = &MyResponse{Value: "qf"}
	q.g.quorum = vBool("quorum")
	return q.g.myVal, q.g.quorum
}

func (q *vQSpec) leveled(in *Request, replies map[uint32]*Response) (*Response, int, bool) {
	v, done := q.plain(in, replies)
	q.g.level = len(replies)
	if done || q.g.level > q.g.pubLevel {
		q.g.pubLevel, q.g.pubVal = q.g.level, v
	}
	return v, q.g.level, done
}

func (q *vQSpec) leveledCustom(in *Request, replies map[uint32]*Response) (*MyResponse, int, bool) {
	v, done := q.custom(in, replies)
	q.g.level = len(replies)
	if done || q.g.level > q.g.pubLevel {
		q.g.pubLevel, q.g.pubMy = q.g.level, v
	}
	return v, q.g.level, done
}

func (q *vQSpec) QuorumCallQF(in *Request, r map[uint32]*Response) (*Response, bool) {
	return q.plain(in, r)
}
func (q *vQSpec) QuorumCallPerNodeArgQF(in *Request, r map[uint32]*Response) (*Response, bool) {
	return q.plain(in, r)
}
func (q *vQSpec) QuorumCallCustomReturnTypeQF(in *Request, r map[uint32]*Response) (*MyResponse, bool) {
	return q.custom(in, r)
}
func (q *vQSpec) QuorumCallComboQF(in *Request, r map[uint32]*Response) (*MyResponse, bool) {
	return q.custom(in, r)
}
func (q *vQSpec) QuorumCallAsyncQF(in *Request, r map[uint32]*Response) (*Response, bool) {
	return q.plain(in, r)
}
func (q *vQSpec) QuorumCallAsyncComboQF(in *Request, r map[uint32]*Response) (*MyResponse, bool) {
	return q.custom(in, r)
}
func (q *vQSpec) CorrectableQF(in *Request, r map[uint32]*Response) (*Response, int, bool) {
	return q.leveled(in, r)
}
func (q *vQSpec) CorrectableComboQF(in *Request, r map[uint32]*Response) (*MyResponse, int, bool) {
	return q.leveledCustom(in, r)
}
func (q *vQSpec) CorrectableStreamCustomReturnTypeQF(in *Request, r map[uint32]*Response) (*MyResponse, int, bool) {
	return q.leveledCustom(in, r)
}

const (
	genQC = iota
	genQCPerNode
	genQCCustom
	genQCCombo
	genAsync
	genAsyncCombo
	genCorr
	genCorrCombo
	genCorrStreamCustom
	genN
)

var genNames = [...]string{"QuorumCall", "QuorumCallPerNodeArg", "QuorumCallCustomReturnType", "QuorumCallCombo", "QuorumCallAsync",
	"QuorumCallAsyncCombo", "Correctable", "CorrectableCombo", "CorrectableStreamCustomReturnType"}

var vErrGenNode = errors.New("verif: node error")

func VerifGen(nmax int) {
	g := &genGhost{pubLevel: gorums.LevelNotSet}
	g.n = 1 + vChoice("n", nmax)
	n := g.n
	raw := gorums.VerifThinConfig(n)
	cfg := &Configuration{RawConfiguration: raw, qspec: &vQSpec{g: g}}
	g.req = &Request{Value: "request"}
	g.stamped = make([]*Response, n)
	g.own = make([]*Request, n)
	g.skip = make([]bool, n)
	m := vChoice("method", genN)
	g.perNode = m == genQCPerNode || m == genQCCombo || m == genAsyncCombo || m == genCorrCombo
	targeted := n
	if g.perNode {
		for i := 0; i < n; i++ {
			if vChoice("skip", 2) == 1 {
				g.skip[i] = true
				targeted--
			}
		}
	}
	f := func(r *Request, id uint32) *Request {
		i := int(id) - 1
		vAssert(r == g.req, "C06.pernode-request-identity")
		vAssert(i >= 0 && i < n, "C06.pernode-unknown-node")
		if g.skip[i] {
			return nil
		}
		g.own[i] = &Request{Value: "per-node"}
		return g.own[i]
	}
	ctx := context.Background()
	var (
		resp    *Response
		my      *MyResponse
		err     error
		fut     *AsyncResponse
		futMy   *AsyncMyResponse
		corr    *CorrectableResponse
		corrMy  *CorrectableMyResponse
		corrSMy *CorrectableStreamMyResponse
	)
	returned := false
	isCorr := m >= genCorr
	go func() {
		switch m {
		case genQC:
			resp, err = cfg.QuorumCall(ctx, g.req)
		case genQCPerNode:
			resp, err = cfg.QuorumCallPerNodeArg(ctx, g.req, f)
		case genQCCustom:
			my, err = cfg.QuorumCallCustomReturnType(ctx, g.req)
		case genQCCombo:
			my, err = cfg.QuorumCallCombo(ctx, g.req, f)
		case genAsync:
			fut = cfg.QuorumCallAsync(ctx, g.req)
			vAssert(!fut.Done() || targeted == 0, "C02.async-done-before-completion")
			resp, err = fut.Get()
		case genAsyncCombo:
			futMy = cfg.QuorumCallAsyncCombo(ctx, g.req, f)
			my, err = futMy.Get()
		case genCorr:
			corr = cfg.Correctable(ctx, g.req)
		case genCorrCombo:
			corrMy = cfg.CorrectableCombo(ctx, g.req, f)
		case genCorrStreamCustom:
			corrSMy = cfg.CorrectableStreamCustomReturnType(ctx, g.req)
		}
		returned = true
	}()
	// typed observation of a correctable: never panics, shows what was published
	observe := func() {
		if !isCorr || !returned {
			return
		}
		var lvl int
		var e error
		var isNil bool
		var okVal bool
		panicked := vExpectPanic(func() {
			switch m {
			case genCorr:
				var v *Response
				v, lvl, e = corr.Get()
				isNil, okVal = v == nil, v == g.pubVal
			case genCorrCombo:
				var v *MyResponse
				v, lvl, e = corrMy.Get()
				isNil, okVal = v == nil, v == g.pubMy
			case genCorrStreamCustom:
				var v *MyResponse
				v, lvl, e = corrSMy.Get()
				isNil, okVal = v == nil, v == g.pubMy
			}
		})
		vKnown("F-C11-typedget", panicked && g.qfCalls == 0)
		vAssert(!panicked, "C11.typed-get-panics")
		if e == nil {
			vAssert(lvl == g.pubLevel, "C11.typed-level")
			if g.pubLevel == gorums.LevelNotSet {
				vReach("typed-get-before-first-publication")
				vAssert(isNil, "C11.typed-initial-value")
			} else {
				vAssert(okVal, "C11.typed-value-is-not-qf-value")
			}
		}
	}
	vQuiescent()
	observe()
	// the nodes answer in an order chosen by the engine (each at most once; streams: once)
	answered := make([]bool, n)
	for step := 0; step < n; step++ {
		i := vChoice("who", n+1)
		if i == n {
			break
		}
		if answered[i] || g.skip[i] {
			vAssume(false)
		}
		msg, id, method, ok := gorums.VerifTake(raw, i)
		if !ok {
			vAssume(false)
		}
		answered[i] = true
		vAssert(method == "dev.ZorumsService."+genNames[m], "C17.client-method-name")
		if g.perNode {
			vAssert(msg == protoreflect.ProtoMessage(g.own[i]), "C06.pernode-payload")
		} else {
			vAssert(msg == protoreflect.ProtoMessage(g.req), "C06.payload")
		}
		if vChoice("kind", 2) == 0 {
			g.stamped[i] = &Response{Result: int64(1000 + i)}
			gorums.VerifRoute(raw, i, id, g.stamped[i], nil)
		} else {
			gorums.VerifRoute(raw, i, id, nil, vErrGenNode)
		}
		vQuiescent()
		observe()
	}
	vQuiescent()
	vReach("method-" + genNames[m])
	if isCorr {
		return
	}
	if !returned {
		vReach("still-waiting")
		return
	}
	if err == nil {
		vReach("success")
		vAssert(g.quorum, "C02.success-without-quorum")
		if m == genQCCustom || m == genQCCombo || m == genAsyncCombo {
			vAssert(my == g.myVal, "C01.returns-qf-value")
		} else {
			vAssert(resp == g.val, "C01.returns-qf-value")
		}
	} else {
		vReach("failure")
		vAssert(errors.Is(err, gorums.Incomplete), "C02.outcome")
	}
}

func VerifGenTwin(nmax int) { VerifGen(nmax); vFail("C01.twin") }
