//go:build verif

package gengorums

import (
	"text/template"

	"github.com/relab/gorums"
	"github.com/relab/gorums/internal/correctable"
	"google.golang.org/protobuf/compiler/protogen"
	"google.golang.org/protobuf/proto"
	"google.golang.org/protobuf/reflect/protoreflect"
	"google.golang.org/protobuf/runtime/protoimpl"
)

// C16 (decidable slice, DESIGN section 6) — the generator's accept/reject classification and
// the uniqueness of its call-type dispatch over the full lattice of method shapes.
//
// Ten symbolic booleans: options rpc, unicast, multicast, quorumcall, correctable, async,
// per_node_arg, non-empty custom_return_type; client-streaming; server-streaming.
// Executed for real: validateOptions, the chkFn closures of gorumsCallTypesInfo, deriveCallType,
// check, callTypeOptions, callType, hasGorumsMethods, hasMethodOption/hasAllMethodOption,
// qspecMethods, mapInternalOutType/mapAsyncOutType/mapCorrectableOutType, outType, customOut,
// gorumsGuard's reserved-name loop; every iteration order (rotation) of the call-type map.
// Stubbed: protoimpl.X.MessageOf, proto.HasExtension/GetExtension (option bits of a puppet
// method descriptor), callTypeName (distinct names per extension), QualifiedGoIdent.

type vShape struct {
	rpc, unicast, multicast, quorumcall, correctable, async, perNode, custom bool
	clientStream, serverStream                                               bool
	// explicitFalse: the boolean option with this index (1 rpc .. 7 per_node_arg, 0 none) is
	// spelt out as "= false": the extension is present (HasExtension) with the value false
	explicitFalse int
}

type vMethodDesc struct {
	protoreflect.MethodDescriptor // nil: only the methods below are used
	shape                         *vShape
}

func (d *vMethodDesc) Options() protoreflect.ProtoMessage { return &vOptions{shape: d.shape} }
func (d *vMethodDesc) IsStreamingClient() bool            { return d.shape.clientStream }
func (d *vMethodDesc) IsStreamingServer() bool            { return d.shape.serverStream }
func (d *vMethodDesc) Name() protoreflect.Name            { return "M" }
func (d *vMethodDesc) FullName() protoreflect.FullName    { return "verif.S.M" }

type vOptions struct {
	proto.Message // nil
	shape         *vShape
}

func (o *vOptions) ProtoReflect() protoreflect.Message { return vOptReflect{o: o} }

type vOptReflect struct {
	protoreflect.Message
	o *vOptions
}

func (r vOptReflect) Interface() protoreflect.ProtoMessage { return r.o }

//verif:stub (google.golang.org/protobuf/internal/impl.Export).MessageOf
func vstubMessageOf(x interface{}, m interface{}) protoreflect.Message {
	return m.(*vOptions).ProtoReflect()
}

// vOptIndex numbers the boolean options (explicitFalse).
func vOptIndex(xt protoreflect.ExtensionType) int {
	switch xt.(*protoimpl.ExtensionInfo) {
	case gorums.E_Rpc:
		return 1
	case gorums.E_Unicast:
		return 2
	case gorums.E_Multicast:
		return 3
	case gorums.E_Quorumcall:
		return 4
	case gorums.E_Correctable:
		return 5
	case gorums.E_Async:
		return 6
	case gorums.E_PerNodeArg:
		return 7
	}
	return -1
}

// vBit: is the option present on the method (set to true, or spelt out as false)?
func vBit(m proto.Message, xt protoreflect.ExtensionType) bool {
	s := m.(*vOptions).shape
	switch xt.(*protoimpl.ExtensionInfo) {
	case gorums.E_Rpc:
		return s.rpc
	case gorums.E_Unicast:
		return s.unicast
	case gorums.E_Multicast:
		return s.multicast
	case gorums.E_Quorumcall:
		return s.quorumcall
	case gorums.E_Correctable:
		return s.correctable
	case gorums.E_Async:
		return s.async
	case gorums.E_PerNodeArg:
		return s.perNode
	case gorums.E_CustomReturnType:
		return s.custom
	}
	return false
}

//verif:stub google.golang.org/protobuf/proto.HasExtension
func vstubHasExtension(m proto.Message, xt protoreflect.ExtensionType) bool { return vBit(m, xt) }

//verif:stub google.golang.org/protobuf/proto.GetExtension
func vstubGetExtension(m proto.Message, xt protoreflect.ExtensionType) interface{} {
	if xt.(*protoimpl.ExtensionInfo) == gorums.E_CustomReturnType {
		if vBit(m, xt) {
			return "Custom"
		}
		return ""
	}
	// the value of a boolean option: true if set, false if absent or spelt out as false
	return vBit(m, xt) && m.(*vOptions).shape.explicitFalse != vOptIndex(xt)
}

//verif:stub github.com/relab/gorums/cmd/protoc-gen-gorums/gengorums.callTypeName
func vstubCallTypeName(ext *protoimpl.ExtensionInfo) string {
	switch ext {
	case gorums.E_Rpc:
		return "rpc"
	case gorums.E_Unicast:
		return "unicast"
	case gorums.E_Multicast:
		return "multicast"
	case gorums.E_Quorumcall:
		return "quorumcall"
	case gorums.E_Correctable:
		return "correctable"
	case gorums.E_Async:
		return "async"
	case correctable.E_Correctable:
		return "correctable.correctable"
	case correctable.E_CorrectableStream:
		return "correctable.correctable_stream"
	}
	return "unknown-extension"
}

type vExtTypeDesc struct {
	protoreflect.ExtensionTypeDescriptor
	name protoreflect.FullName
}

func (d *vExtTypeDesc) FullName() protoreflect.FullName { return d.name }

// (used by optionErrorf to name the option in its diagnostic)
//
//verif:stub (*google.golang.org/protobuf/internal/impl.ExtensionInfo).TypeDescriptor
func vstubTypeDescriptor(xi *protoimpl.ExtensionInfo) protoreflect.ExtensionTypeDescriptor {
	return &vExtTypeDesc{name: protoreflect.FullName("gorums." + vstubCallTypeName(xi))}
}

//verif:stub (*google.golang.org/protobuf/compiler/protogen.GeneratedFile).QualifiedGoIdent
func vstubQualifiedGoIdent(g *protogen.GeneratedFile, ident protogen.GoIdent) string {
	return "pkg." + ident.GoName
}

type vSvcDesc struct {
	protoreflect.ServiceDescriptor
}

func (d *vSvcDesc) Name() protoreflect.Name         { return "S" }
func (d *vSvcDesc) FullName() protoreflect.FullName { return "verif.S" }

func c16Method(s *vShape) *protogen.Method {
	out := &protogen.Message{GoIdent: protogen.GoIdent{GoName: "Response", GoImportPath: "pkg"}}
	in := &protogen.Message{GoIdent: protogen.GoIdent{GoName: "Request", GoImportPath: "pkg"}}
	return &protogen.Method{Desc: &vMethodDesc{shape: s}, GoName: "M", Input: in, Output: out, Parent: &protogen.Service{Desc: &vSvcDesc{}}}
}

// emitted re-enacts the loop of generateFileContent/genGorumsMethods with the real functions:
// one client stub is emitted per call-type entry whose derived type claims the method.
func c16Emitted(m *protogen.Method) (int, *callTypeInfo) {
	n := 0
	var last *callTypeInfo
	for _, ct := range gorumsCallTypesInfo {
		if ct.extInfo == nil {
			continue
		}
		d := ct.deriveCallType(m)
		if d.check(m) {
			n++
			last = d
		}
	}
	return n, last
}

func VerifC16Lattice() {
	c16CheckShape(c16SymbolicShape(), false)
}

func c16SymbolicShape() *vShape {
	return &vShape{rpc: vBool("rpc"), unicast: vBool("unicast"), multicast: vBool("multicast"), quorumcall: vBool("quorumcall"),
		correctable: vBool("correctable"), async: vBool("async"), perNode: vBool("per_node_arg"), custom: vBool("custom_return_type"),
		clientStream: vBool("client_stream"), serverStream: vBool("server_stream")}
}

// VerifC16TwoFiles: one plugin run generates several files, and the generator's answers for a
// method must depend on that method alone ("byte-identical output for the same input"): a
// method of an EARLIER file - same service and method names, another package, one of the
// documented shapes - is put through every helper the templates use, then a method of
// arbitrary (symbolic) shape is classified exactly as VerifC16Lattice demands of a fresh run.
// Anything the generator remembers between files (caches keyed by names, package-level
// state) shows up as a classification that differs from the one of a fresh run.
func VerifC16TwoFiles() {
	first := []vShape{
		{quorumcall: true}, {quorumcall: true, async: true}, {correctable: true}, {correctable: true, serverStream: true},
		{multicast: true}, {unicast: true}, {rpc: true}, {quorumcall: true, perNode: true, custom: true},
	}
	s1 := first[vChoice("earlier-file", len(first))]
	m1 := c16Method(&s1)
	m1.Output.GoIdent.GoImportPath = "pkg1"
	m1.Input.GoIdent.GoImportPath = "pkg1"
	vAssert(validateOptions(m1) == nil, "C16.documented-combination-rejected")
	n1, sel1 := c16Emitted(m1)
	vAssert(n1 == 1, "C16.not-exactly-one-client-stub")
	if sel1.template == quorumCall || sel1.template == asyncCall || sel1.template == correctableCall {
		vAssert(callType(m1) == sel1, "C16.calltype-depends-on-map-order")
	}
	customOut(nil, m1)
	vReach("second-file")
	c16CheckShape(c16SymbolicShape(), true)
}

// light: only the classification, the number of stubs and callType (the second-file harness)
func c16CheckShape(s *vShape, light bool) {
	m := c16Method(s)
	ncall := 0
	for _, b := range []bool{s.unicast, s.multicast, s.quorumcall, s.correctable} {
		if b {
			ncall++
		}
	}
	twoCallTypes := ncall >= 2
	illegal := twoCallTypes || (s.async && !s.quorumcall) || (s.correctable && s.async) ||
		(s.clientStream && !s.multicast) || (s.serverStream && !s.correctable) || (s.correctable && s.clientStream)
	naCombos := (s.custom && !(s.quorumcall || s.correctable)) || (s.perNode && !(s.multicast || s.quorumcall || s.correctable)) ||
		(s.rpc && ncall > 0) || (s.async && (s.unicast || s.multicast)) || (s.clientStream && s.serverStream)
	valid := !illegal && !naCombos
	err := validateOptions(m)
	n, sel := c16Emitted(m)
	if illegal {
		vReach("illegal-shape")
		vAssert(err != nil, "C16.illegal-combination-accepted")
		return
	}
	if !valid {
		vReach("unspecified-shape") // "N/A" cells of the option matrix: neither demanded to pass nor to fail
		return
	}
	vReach("valid-shape")
	vAssert(err == nil, "C16.documented-combination-rejected")
	vAssert(n == 1, "C16.not-exactly-one-client-stub")
	// cross-template consistency
	ct := sel
	hasQF := ct.template == quorumCall || ct.template == asyncCall || ct.template == correctableCall
	if hasQF {
		// callType(m) - used by the templates through outType/docName for exactly these call
		// types - is total and agrees with the emitting call type whatever the map order
		var ct2 *callTypeInfo
		panicked := vExpectPanic(func() { ct2 = callType(m) })
		vAssert(!panicked, "C16.calltype-panics")
		vAssert(ct2 == sel, "C16.calltype-depends-on-map-order")
	}
	if light {
		return
	}
	vAssert((len(qspecMethods([]*protogen.Method{m})) == 1) == hasQF, "C16.qspec-disagrees-with-template")
	svc := []*protogen.Service{{Methods: []*protogen.Method{m}}}
	vAssert(hasGorumsMethods(svc), "C16.hasGorumsMethods")
	vAssert((len(mapInternalOutType(nil, svc)) == 1) == hasQF, "C16.internal-type-disagrees-with-template")
	vAssert((len(mapAsyncOutType(nil, svc)) == 1) == (ct.template == asyncCall), "C16.async-type-disagrees-with-template")
	vAssert((len(mapCorrectableOutType(nil, svc)) == 1) == (ct.template == correctableCall), "C16.correctable-type-disagrees-with-template")
	oneway := hasMethodOption(m, gorums.E_Multicast, gorums.E_Unicast)
	vAssert(oneway == (ct.template == multicastCall || ct.template == unicastCall), "C16.oneway-disagrees-with-template")
	if ct.template == correctableCall {
		vAssert((ct.outPrefix == "CorrectableStream") == s.serverStream, "C16.correctable-stream-prefix")
	}
	if s.custom {
		vAssert(customOut(nil, m) == "pkg.Custom", "C16.custom-return-type")
	} else {
		vAssert(customOut(nil, m) == "pkg.Response", "C16.custom-return-type")
	}
}

type vMsgDesc struct {
	protoreflect.MessageDescriptor
	name protoreflect.Name
}

func (d *vMsgDesc) Name() protoreflect.Name { return d.name }

// VerifC16Reserved: a message whose Go type name is a reserved identifier stops the generator
// with a diagnostic (log.Fatalf); any other name passes the guard. protoc-gen-go derives the Go
// name by camel-casing the proto name, so "node", "quorum_spec" or "quorumSpec" collide with
// the generated Node / QuorumSpec types exactly as "Node" / "QuorumSpec" do; the same holds
// for a top-level enum. (The camel-casing itself - google.golang.org/protobuf/internal/strs -
// is protobuf's and not part of the encoding: the harness states both names of each shape.)
func VerifC16Reserved() {
	type shape struct{ proto, goName string }
	var shapes []shape
	for _, r := range reservedIdents {
		lower := string(r[0]|0x20) + r[1:]
		shapes = append(shapes, shape{r, r}, shape{lower, r})
	}
	shapes = append(shapes, shape{"quorum_spec", "QuorumSpec"}, shape{"quorumSpec", "QuorumSpec"})
	free := []shape{{"Harmless", "Harmless"}, {"nodes", "Nodes"}, {"node_id", "NodeId"}, {"my_node", "MyNode"}}
	k := vChoice("name", len(shapes)+len(free))
	asEnum := vChoice("enum", 2) == 1
	var sh shape
	if k < len(shapes) {
		sh = shapes[k]
	} else {
		sh = free[k-len(shapes)]
	}
	s := &vShape{quorumcall: true}
	file := &protogen.File{
		Services: []*protogen.Service{{Methods: []*protogen.Method{c16Method(s)}}},
		Messages: []*protogen.Message{{Desc: &vMsgDesc{name: "Request"}, GoIdent: protogen.GoIdent{GoName: "Request"}}},
	}
	if asEnum {
		file.Enums = []*protogen.Enum{{Desc: &vEnumDesc{name: protoreflect.Name(sh.proto)}, GoIdent: protogen.GoIdent{GoName: sh.goName}}}
	} else {
		file.Messages = append(file.Messages, &protogen.Message{Desc: &vMsgDesc{name: protoreflect.Name(sh.proto)}, GoIdent: protogen.GoIdent{GoName: sh.goName}})
	}
	ok := false
	stopped := vExpectPanic(func() { ok = gorumsGuard(file) })
	if k < len(shapes) {
		vReach("reserved-name")
		vAssert(stopped, "C16.reserved-name-accepted")
	} else {
		vReach("free-name")
		vAssert(!stopped && ok, "C16.free-name-rejected")
	}
}

type vEnumDesc struct {
	protoreflect.EnumDescriptor
	name protoreflect.Name
}

func (d *vEnumDesc) Name() protoreflect.Name { return d.name }

// VerifC16ExplicitFalse: one boolean option is spelt out as "= false" (the extension is present,
// its value is false), every other option and the stream flags are symbolic. The documentation
// does not say whether such an option counts as set; whichever reading the generator takes, it
// must take it everywhere: either a diagnostic, or exactly one client stub whose call type all
// template helpers agree on, whatever the iteration order of the call-type map.
func VerifC16ExplicitFalse() {
	k := 1 + vChoice("explicit-false", 7)
	s := &vShape{rpc: vBool("rpc"), unicast: vBool("unicast"), multicast: vBool("multicast"), quorumcall: vBool("quorumcall"),
		correctable: vBool("correctable"), async: vBool("async"), perNode: vBool("per_node_arg"), custom: vBool("custom_return_type"),
		clientStream: vBool("client_stream"), serverStream: vBool("server_stream"), explicitFalse: k}
	// the option spelt out as false is present
	switch k {
	case 1:
		vAssume(s.rpc)
	case 2:
		vAssume(s.unicast)
	case 3:
		vAssume(s.multicast)
	case 4:
		vAssume(s.quorumcall)
	case 5:
		vAssume(s.correctable)
	case 6:
		vAssume(s.async)
	case 7:
		vAssume(s.perNode)
	}
	m := c16Method(s)
	var err error
	stopped := vExpectPanic(func() { err = validateOptions(m) })
	if stopped || err != nil {
		vReach("explicit-false-diagnostic")
		return
	}
	n, sel := c16Emitted(m)
	vReach("explicit-false-accepted")
	vAssert(n == 1, "C16.not-exactly-one-client-stub")
	hasQF := sel.template == quorumCall || sel.template == asyncCall || sel.template == correctableCall
	if hasQF {
		var ct2 *callTypeInfo
		panicked := vExpectPanic(func() { ct2 = callType(m) })
		vAssert(!panicked, "C16.calltype-panics")
		vAssert(ct2 == sel, "C16.calltype-depends-on-map-order")
	}
	vAssert((len(qspecMethods([]*protogen.Method{m})) == 1) == hasQF, "C16.qspec-disagrees-with-template")
	svc := []*protogen.Service{{Methods: []*protogen.Method{m}}}
	vAssert((len(mapInternalOutType(nil, svc)) == 1) == hasQF, "C16.internal-type-disagrees-with-template")
	vAssert((len(mapAsyncOutType(nil, svc)) == 1) == (sel.template == asyncCall), "C16.async-type-disagrees-with-template")
	vAssert((len(mapCorrectableOutType(nil, svc)) == 1) == (sel.template == correctableCall), "C16.correctable-type-disagrees-with-template")
}

// ---- the generation loop itself (who is validated, who is emitted) ----

var vEmitted int

//verif:stub github.com/relab/gorums/cmd/protoc-gen-gorums/gengorums.mustExecute
func vstubMustExecute(t *template.Template, data interface{}) string { vEmitted++; return "" }

//verif:stub github.com/relab/gorums/cmd/protoc-gen-gorums/gengorums.parseTemplate
func vstubParseTemplate(name, tmpl string) *template.Template { return nil }

//verif:stub (*google.golang.org/protobuf/compiler/protogen.GeneratedFile).P
func vstubGenP(g *protogen.GeneratedFile, v ...interface{}) {}

// VerifC16Service: a service with several methods goes through the REAL guard and the REAL
// per-call-type generation loop (gorumsGuard, then genGorumsMethods for every call type with
// an option; only template parsing/execution and GeneratedFile.P are stubbed and counted).
// The first methods have documented shapes, the LAST one an arbitrary (symbolic) shape: an
// illegal shape must stop the generator with a diagnostic wherever in the service it stands,
// a documented one must be emitted exactly once - i.e. every method is validated and emitted,
// not only the first.
func VerifC16Service(nBefore int) {
	before := []vShape{{quorumcall: true}, {rpc: true}, {multicast: true}}
	var methods []*protogen.Method
	svc := &protogen.Service{Desc: &vSvcDesc{}}
	for i := 0; i < nBefore; i++ {
		sh := before[vChoice("earlier-method", len(before))]
		m := c16Method(&sh)
		m.GoName = "Earlier" + string(rune('A'+i))
		m.Parent = svc
		methods = append(methods, m)
	}
	s := c16SymbolicShape()
	last := c16Method(s)
	last.Parent = svc
	methods = append(methods, last)
	svc.Methods = methods
	file := &protogen.File{Services: []*protogen.Service{svc}, Messages: []*protogen.Message{{Desc: &vMsgDesc{name: "Request"}, GoIdent: protogen.GoIdent{GoName: "Request"}}}}
	ncall := 0
	for _, b := range []bool{s.unicast, s.multicast, s.quorumcall, s.correctable} {
		if b {
			ncall++
		}
	}
	illegal := ncall >= 2 || (s.async && !s.quorumcall) || (s.correctable && s.async) ||
		(s.clientStream && !s.multicast) || (s.serverStream && !s.correctable) || (s.correctable && s.clientStream)
	naCombos := (s.custom && !(s.quorumcall || s.correctable)) || (s.perNode && !(s.multicast || s.quorumcall || s.correctable)) ||
		(s.rpc && ncall > 0) || (s.async && (s.unicast || s.multicast)) || (s.clientStream && s.serverStream)
	vEmitted = 0
	stopped := vExpectPanic(func() {
		if !gorumsGuard(file) {
			return
		}
		data := servicesData{nil, file.Services}
		for name, ct := range gorumsCallTypesInfo {
			if ct.extInfo != nil {
				genGorumsMethods(name, data, ct)
			}
		}
	})
	if illegal {
		vReach("service-illegal-method")
		vAssert(stopped, "C16.illegal-combination-accepted")
		return
	}
	if naCombos {
		return
	}
	vReach("service-valid-method")
	vAssert(!stopped, "C16.documented-combination-rejected")
	vAssert(vEmitted == len(methods), "C16.not-exactly-one-client-stub")
}

func VerifC16ServiceTwin(n int) { VerifC16Service(n); vFail("C16.twin") }

func VerifC16ExplicitFalseTwin() { VerifC16ExplicitFalse(); vFail("C16.twin") }
func VerifC16LatticeTwin()       { VerifC16Lattice(); vFail("C16.twin") }
func VerifC16ReservedTwin()      { VerifC16Reserved(); vFail("C16.twin") }
func VerifC16TwoFilesTwin()      { VerifC16TwoFiles(); vFail("C16.twin") }
