//go:build verif && verifnative

package gorums

import (
	"google.golang.org/grpc"

	"github.com/relab/gorums/ordering"
)

// Native builds cannot redirect callees. The check driver overlays a copy of
// ordering/ordering_grpc.pb.go whose NewGorumsClient consults VerifClientHook (generated gRPC
// glue, not gorums logic); grpc.DialContext stays real (non-blocking dial to an unused
// loop-back port). The hook maps the connection's target to the puppet peer.
func init() {
	ordering.VerifClientHook = func(cc grpc.ClientConnInterface) ordering.GorumsClient {
		if vNet == nil {
			return nil
		}
		c, ok := cc.(*grpc.ClientConn)
		if !ok {
			return nil
		}
		p := vNet.peers[c.Target()]
		if p == nil {
			return nil
		}
		return &vClient{peer: p}
	}
}
