//go:build verif

package gorums

import (
	"context"
)

// C12 — Close stops everything and strands no caller.
//
// World: 1 full-stack node. Symbolic: send-buffer size (0/1), node state at the time of the
// calls (connected / never connected: peer down at creation / reconnecting: peer stopped /
// dial failed at creation: no connection object at all), the
// type of one in-flight call, the instant of Close relative to it (any scheduling point), an
// optional second concurrent Close. After Close returned one more call of symbolic type is
// issued with a fresh context. At quiescence (timers may fire; peer streams fail once their
// context is cancelled): no panic, the in-flight call has returned, no library goroutine and
// no open connection is left, the post-Close call has returned (two-way: with an error).

const (
	c12Connected = iota
	c12NeverConnected
	c12Reconnecting
	c12DialFailed // the (blocking) dial at creation failed: the node has a channel but no connection
	c12NStates
)

func VerifC12(sendBuffer, secondClose, mode, freezeTimers, fewKinds int) {
	state := vChoice("nodestate", c12NStates)
	var opts []ManagerOption
	if sendBuffer > 0 {
		opts = append(opts, WithSendBufferSize(uint(sendBuffer)))
	}
	vDialRefused = state == c12DialFailed
	w := vMixed(1, 0, []bool{state != c12NeverConnected && state != c12DialFailed}, opts...)
	vDialRefused = false
	p := w.peers[0]
	dialsLater := false
	if state == c12DialFailed && vChoice("dial-later", 2) == 1 {
		// later dials get through (the peer still does not serve streams)
		p.refuse = false
		dialsLater = true
	}
	if state == c12Reconnecting {
		p.stop()
	}
	if freezeTimers == 1 {
		// quick tier: no timer fires during the run (every timed wait of the library also
		// watches the node's context, so termination does not depend on timers)
		vFreezeEnv()
	}
	// mode 0: a call is in flight while Close strikes; mode 1: Close on an idle manager, then a
	// call issued after Close returned
	kind := ckUnicastNoWait
	c := &fsCall{issued: true, returned: true}
	if mode == 0 {
		kind = vChoice("calltype", ckN)
		if fewKinds == 1 && kind != ckRPC && kind != ckQC && kind != ckUnicast && kind != ckMulticastNoWait {
			vAssume(false)
		}
		c = fsNewCall(kind, 1, 1)
		go c.run(w, w.cfg)
	}
	closed := false
	closed2 := false
	go func() {
		w.mgr.Close() // at a point of the run chosen by the scheduler
		closed = true
	}()
	if secondClose == 1 && vChoice("secondClose", 2) == 1 {
		go func() {
			w.mgr.Close()
			closed2 = true
		}()
	} else {
		closed2 = true
	}
	vQuiescent() // timers may fire
	if mode == 0 {
		vReach("calltype-" + ckNames[kind])
	}
	if !closed || !closed2 {
		vFail("C12.close-does-not-return")
	}
	if !c.issued || !c.returned {
		vFail("C12.in-flight-call-stranded")
	}
	vAssert(vLiveGoroutines(gorumsPkg) == 0, "C12.goroutine-left-after-close")
	vKnown("F-C12-connleak", (state == c12NeverConnected || dialsLater) && mode == 0)
	vAssert(p.conns == 0, "C12.connection-left-open")
	if mode == 0 {
		vAssert(w.routersLeft() == 0, "C18.routing-entry-left")
		return
	}
	// a call issued after Close fails fast
	kind2 := vChoice("postclose", ckN)
	c2 := fsNewCall(kind2, 2, 1)
	go c2.run(w, w.cfg)
	vQuiescent()
	vReach("postclose-" + ckNames[kind2])
	if !c2.issued || !c2.returned {
		vFail("C12.call-after-close-blocks")
	}
	if !ckOneWay(kind2) {
		vAssert(c2.err != nil, "C12.call-after-close-succeeds")
	}
	vAssert(len(p.wire) == 0, "C12.message-written-after-close")
	vAssert(vLiveGoroutines(gorumsPkg) == 0, "C12.goroutine-left-after-close")
	vAssert(p.conns == 0, "C12.connection-left-open")
	vAssert(w.routersLeft() == 0, "C18.routing-entry-left")
}

// VerifC12NoConnect: Close on a manager created with WithNoConnect (any number of nodes) must
// not panic, also when called twice.
func VerifC12NoConnect(nmax int) {
	n := 1 + vChoice("n", nmax)
	mgr := NewRawManager(WithNoConnect())
	ids := map[string]uint32{}
	for i := 0; i < n; i++ {
		ids["127.0.0.1:"+string(rune('0'+i))+"000"] = uint32(i + 1)
	}
	cfg, err := NewRawConfiguration(mgr, WithNodeMap(ids))
	vAssert(err == nil && cfg.Size() == n, "C14.nodemap-size")
	panicked := vExpectPanic(func() {
		mgr.Close()
		mgr.Close()
	})
	vAssert(!panicked, "C12.close-panics-with-noconnect")
	vReach("closed")
	_ = context.Background
}

func VerifC12Twin(sendBuffer, secondClose, mode, freezeTimers, fewKinds int) {
	VerifC12(sendBuffer, secondClose, mode, freezeTimers, fewKinds)
	vFail("C12.twin")
}
func VerifC12NoConnectTwin(nmax int) { VerifC12NoConnect(nmax); vFail("C12.twin") }
