//go:build verif

package gorums

import (
	"context"
	"errors"

	"google.golang.org/protobuf/reflect/protoreflect"
)

// C01 / C02 — thin transport harness for QuorumCall and AsyncCall.
//
// Symbolic: configuration size n ∈ 1..nmax; per-node function present or not and which nodes
// it skips; the history — which nodes answer, in which order, with a reply or an error
// (nodes not in the script stay silent); whether and where the context is cancelled; the
// quorum function is havoc: every invocation returns a fresh message object and a fresh
// symbolic verdict. All interleavings of the call goroutine with the environment are explored.
//
// Executed for real: RawConfiguration.QuorumCall / AsyncCall / handleAsyncCall, Async.Get /
// Done, channel.enqueue, channel.routeResponse, getMsgID, QuorumCallError.Is.

type c02Ghost struct {
	n         int
	skip      []bool
	targeted  int
	answered  []bool
	replies   int // successful replies routed by the environment
	errorsN   int // error replies routed by the environment
	cancelled bool

	invocations int
	quorumSeen  bool
	quorumVal   *vMsg
	inQF        bool
	lastLen     int

	req      *vMsg
	perNode  []*vMsg
	stamped  []*vMsg // reply the puppet node i produced
	sent     []protoreflect.ProtoMessage
	msgID    uint64
	returned bool
	resp     protoreflect.ProtoMessage
	err      error
	ctxEnded bool // ctx.Err() != nil observed by the caller right after the return
}

func c02Setup(nmax int, allowZeroTargets bool) (*c02Ghost, RawConfiguration, []*RawNode, QuorumCallData) {
	g := &c02Ghost{}
	g.n = 1 + vChoice("n", nmax)
	n := g.n
	cfg, nodes := vThinConfig(n, 1)
	g.skip = make([]bool, n)
	g.answered = make([]bool, n)
	g.perNode = make([]*vMsg, n)
	g.stamped = make([]*vMsg, n)
	g.sent = make([]protoreflect.ProtoMessage, n)
	perNode := vChoice("perNode", 2) == 1
	for i := 0; i < n; i++ {
		if perNode && vChoice("skip", 2) == 1 {
			g.skip[i] = true
		} else {
			g.targeted++
		}
	}
	if !allowZeroTargets {
		vAssume(g.targeted > 0)
	}
	g.req = &vMsg{tok: 1}
	d := QuorumCallData{Message: g.req, Method: "verif.M"}
	d.QuorumFunction = func(r protoreflect.ProtoMessage, replies map[uint32]protoreflect.ProtoMessage) (protoreflect.ProtoMessage, bool) {
		// C01: one invocation at a time, never after a quorum, with the caller's request,
		// a reply set that grew by exactly one genuine reply, no failed node in it.
		vAssert(!g.inQF, "C01.qf-reentered")
		g.inQF = true
		vAssert(!g.quorumSeen, "C01.qf-after-quorum")
		vAssert(r == protoreflect.ProtoMessage(g.req), "C01.qf-request-identity")
		vAssert(len(replies) == g.lastLen+1, "C01.qf-replyset-grows-by-one|C02.quorum-function-not-consulted-at-every-reply")
		g.lastLen = len(replies)
		for id, m := range replies {
			i := int(id) - 1
			vAssert(i >= 0 && i < n, "C01.qf-unknown-node")
			vAssert(g.stamped[i] != nil && m == protoreflect.ProtoMessage(g.stamped[i]), "C01.qf-reply-genuine")
		}
		g.invocations++
		out := &vMsg{tok: 100 + g.invocations}
		q := vBool("quorum")
		if q {
			g.quorumSeen, g.quorumVal = true, out
		}
		g.inQF = false
		return out, q
	}
	if perNode {
		d.PerNodeArgFn = func(r protoreflect.ProtoMessage, id uint32) protoreflect.ProtoMessage {
			i := int(id) - 1
			vAssert(r == protoreflect.ProtoMessage(g.req), "C06.pernode-request-identity")
			vAssert(i >= 0 && i < n, "C06.pernode-unknown-node")
			if g.skip[i] {
				return (*vMsg)(nil)
			}
			g.perNode[i] = &vMsg{tok: 10 + i}
			return g.perNode[i]
		}
	}
	return g, cfg, nodes, d
}

// c02Environment plays the nodes and the cancellation in an order chosen by the engine.
func c02Environment(g *c02Ghost, nodes []*RawNode, cancel context.CancelFunc) {
	n := g.n
	for step := 0; step <= n; step++ {
		ev := vChoice("event", n+2) // 0..n-1: node answers; n: cancel; n+1: stop
		if ev == n+1 {
			return
		}
		vNativeSettle()
		if ev == n {
			if g.cancelled {
				vAssume(false)
			}
			g.cancelled = true
			cancel()
			continue
		}
		i := ev
		if g.skip[i] || g.answered[i] {
			vAssume(false) // not a new event
		}
		r, ok := vTake(nodes[i]) // the request must have been queued to be answered
		if !ok {
			vAssume(false)
		}
		g.answered[i] = true
		g.sent[i] = r.msg.Message
		g.msgID = r.msg.Metadata.MessageID
		if vChoice("kind", 2) == 0 {
			g.stamped[i] = &vMsg{tok: 1000 + i, node: nodes[i].id, call: g.msgID}
			g.replies++
			nodes[i].channel.routeResponse(g.msgID, response{nid: nodes[i].id, msg: g.stamped[i]})
		} else {
			g.errorsN++
			nodes[i].channel.routeResponse(g.msgID, response{nid: nodes[i].id, err: vErrNode})
		}
	}
}

var vErrNode = errors.New("verif: node error")

// c02Check: the outcome oracle shared by the sync and async variants.
func c02Check(g *c02Ghost, ctx context.Context) {
	all := g.replies+g.errorsN == g.targeted
	if g.quorumSeen || all || g.cancelled {
		vKnown("F-C02-zero", g.targeted == 0 && !g.cancelled)
		vAssert(g.returned, "C02.lingers")
	}
	if !g.returned {
		vReach("still-waiting-justified")
		return
	}
	switch {
	case g.err == nil:
		vReach("success")
		vAssert(g.quorumSeen, "C02.success-without-quorum")
		vAssert(g.resp == protoreflect.ProtoMessage(g.quorumVal), "C01.returns-qf-value")
	case errors.Is(g.err, Incomplete):
		vReach("incomplete")
		qe, ok := g.err.(QuorumCallError)
		vAssert(ok, "C02.error-type")
		vAssert(!g.quorumSeen, "C02.incomplete-after-quorum")
		vAssert(all, "C02.incomplete-before-exhaustion")
		vAssert(len(qe.errors)+qe.replies == g.targeted, "C02.accounting")
		vAssert(qe.replies == g.replies && len(qe.errors) == g.errorsN, "C02.kinds")
		// every error names a distinct targeted node that failed
		seen := make([]bool, g.n)
		for _, ne := range qe.errors {
			i := int(ne.nodeID) - 1
			vAssert(i >= 0 && i < g.n && !g.skip[i] && g.answered[i] && g.stamped[i] == nil && !seen[i], "C07.error-attribution")
			seen[i] = true
			vAssert(ne.cause == vErrNode, "C07.error-cause")
		}
	default:
		vReach("ctx-error")
		vAssert(g.cancelled && g.ctxEnded, "C02.ctx-error-without-ctx-end")
		vAssert(errors.Is(g.err, context.Canceled), "C02.ctx-error-is")
		_, ok := g.err.(QuorumCallError)
		vAssert(ok, "C02.error-type")
	}
	// C06: each node got exactly its own message
	for i := 0; i < g.n; i++ {
		if g.answered[i] {
			if g.perNode[i] != nil {
				vAssert(g.sent[i] == protoreflect.ProtoMessage(g.perNode[i]), "C06.pernode-payload")
			} else {
				vAssert(g.sent[i] == protoreflect.ProtoMessage(g.req), "C06.payload")
			}
		}
	}
}

// VerifC02Sync: synchronous quorum call.
func VerifC02Sync(nmax int) {
	g, cfg, nodes, d := c02Setup(nmax, true)
	ctx, cancel := context.WithCancel(context.Background())
	go func() {
		resp, err := cfg.QuorumCall(ctx, d)
		g.ctxEnded = ctx.Err() != nil
		g.resp, g.err, g.returned = resp, err, true
	}()
	c02Environment(g, nodes, cancel)
	vFreezeEnv()
	vQuiescent()
	c02Check(g, ctx)
	// nothing is left queued for nodes that were skipped
	for i := 0; i < g.n; i++ {
		if g.skip[i] {
			_, ok := vTake(nodes[i])
			vAssert(!ok, "C06.skipped-node-got-message")
		}
	}
}

// VerifC02Async: asynchronous quorum call; the future completes under the same rule, then
// Done is true and Get yields the same outcome on every invocation.
func VerifC02Async(nmax int) {
	g, cfg, nodes, d := c02Setup(nmax, true)
	ctx, cancel := context.WithCancel(context.Background())
	var fut *Async
	issued := false
	go func() {
		fut = cfg.AsyncCall(ctx, d)
		issued = true
		resp, err := fut.Get()
		g.ctxEnded = ctx.Err() != nil
		g.resp, g.err, g.returned = resp, err, true
	}()
	c02Environment(g, nodes, cancel)
	vFreezeEnv()
	vQuiescent()
	vAssert(issued, "C03.async-issue-blocked")
	c02Check(g, ctx)
	if g.returned {
		vAssert(fut.Done(), "C02.async-done-after-completion")
		for k := 0; k < 3; k++ {
			r2, e2 := fut.Get()
			vAssert(r2 == g.resp, "C02.async-get-stable-value")
			if g.err == nil {
				vAssert(e2 == nil, "C02.async-get-stable-error")
			} else {
				vAssert(e2 != nil && errors.Is(e2, Incomplete) == errors.Is(g.err, Incomplete), "C02.async-get-stable-error")
			}
		}
	} else {
		vAssert(!fut.Done(), "C02.async-done-before-completion")
	}
}

func VerifC02SyncTwin(nmax int)  { VerifC02Sync(nmax); vFail("C02.twin") }
func VerifC02AsyncTwin(nmax int) { VerifC02Async(nmax); vFail("C02.twin") }
