//go:build verif

package gorums

import (
	"errors"
	"context"

	"google.golang.org/grpc/metadata"
	"google.golang.org/protobuf/reflect/protoreflect"
)

// C10 — nodes that come back are used again; each connection carries metadata.
//
// World: 1 full-stack node, manager created with general and per-node metadata. Symbolic: peer
// down at creation or not; up to maxEvents stop/start events at scheduler-chosen points while a
// workload call is in flight; the call type of the workload. Final phase: the peer is up; a
// probe RPC must be written (first tried with all timers frozen; if the sender is sitting out
// the back-off of an earlier failed attempt, with timers running), and once the peer has
// answered it the caller must get that reply *without any timer firing* (no waiting out a
// back-off).
// Every stream the peer ever saw must carry metadata.Join(general, perNode(id)).

func VerifC10(maxEvents, withWorkload int) {
	downAtCreation := vChoice("downAtCreation", 2) == 1
	general := metadata.Pairs("verif-general", "g")
	perNode := func(id uint32) metadata.MD {
		return metadata.Pairs("verif-node", string(rune('0'+id)))
	}
	w := vMixed(1, 0, []bool{!downAtCreation}, WithMetadata(general), WithPerNodeMetadata(perNode))
	p := w.peers[0]
	up := !downAtCreation
	var wl *fsCall
	if withWorkload == 1 {
		kind := vChoice("workload", 3) // rpc, quorumcall, async
		wl = fsNewCall(kind, 1, 1)
		go wl.run(w, w.cfg)
	}
	stops := 0
	for step := 0; step < maxEvents; step++ {
		ev := vChoice("event", 3)
		if ev == 0 {
			break
		}
		if ev == 1 {
			if !up {
				vAssume(false)
			}
			up = false
			stops++
			p.stop()
		} else {
			if up {
				vAssume(false)
			}
			up = true
			p.start()
		}
	}
	if !up {
		p.start()
	}
	if wl != nil {
		// whatever happened to the workload call, it must not stay in the way: give it up
		wl.cancel()
	}
	// let everything settle with timers allowed (a back-off in progress may complete or not:
	// both continuations are explored), then freeze the timers for the probe
	settle := vChoice("settleWithTimers", 2) == 1
	if settle {
		vQuiescent()
	}
	vFreezeEnv()
	vQuiescent()
	for p.take() != nil { // drop whatever the workload left at the peer
	}
	probe := &vMsg{tok: 4242}
	var resp protoreflect.ProtoMessage
	var err error
	returned := false
	// the probe is an RPC - or a send-waiting Unicast, which has no result: a message that the
	// client drops (a node error it reports to nobody) simply never reaches the peer
	// (only in the small configuration: the variant doubles the probe phase)
	oneway := maxEvents <= 2 && withWorkload == 0 && vChoice("probe-oneway", 2) == 1
	go func() {
		if oneway {
			w.nodes[0].Unicast(context.Background(), CallData{Message: probe, Method: "verif.probe"})
			err = vErrOneWayReturned
		} else {
			resp, err = w.nodes[0].RPCCall(context.Background(), CallData{Message: probe, Method: "verif.probe"})
		}
		returned = true
	}()
	vQuiescent()
	if stops > 0 {
		vReach("probe-after-restart")
	}
	if downAtCreation {
		vReach("probe-after-down-at-creation")
	}
	a := p.take()
	if a == nil && !returned {
		// Not written while the timers stand still: the sender may be sitting out the back-off
		// of a connection attempt made while the peer was down - waiting for *that* is not
		// what the property forbids. Let the timers run (fresh budget) and look again.
		vReach("probe-needs-timer")
		vAtomic(1, &vTimersFired)
		vTimersFired = 0 // (a timer that starved earlier stays dead: vTimerStarved is kept)
		vAtomicEnd()
		vUnfreezeEnv()
		vQuiescent()
		vFreezeEnv()
		a = p.take()
		if a == nil && !returned && vTimerStarved {
			vAssume(false) // needs more timer firings than the bound allows: outside the claim
		}
	}
	if a == nil {
		// the node is up: the request must have been written (a send that fails because the
		// connection attempt of *this* call failed is not possible: the peer accepts streams)
		if returned && err != nil {
			vFail("C10.node-that-came-back-not-contacted|C06.one-way-message-not-delivered-to-a-reachable-node")
		}
		vFail("C10.probe-not-delivered|C06.one-way-message-not-delivered-to-a-reachable-node")
	}
	vAssert(a.msg.Message == protoreflect.ProtoMessage(probe), "C10.probe-payload")
	if oneway {
		vReach("probe-ok-oneway")
		return
	}
	stamp := vStamp(p, a, 99)
	vAssert(p.reply(a, stamp, nil), "harness.inbox-full")
	vQuiescent() // timers are frozen: the reply must arrive without any of them
	if !returned {
		vFail("C10.reply-waits-for-backoff-timer")
	}
	vAssert(err == nil && resp == protoreflect.ProtoMessage(stamp), "C10.probe-wrong-result")
	// metadata on every stream ever created
	if w.net.libraryDialOpts {
		// the library passes dial options of its own (interceptors, credentials, ...): what
		// they add to a connection is behind the puppet transport - not decidable here
		vAssume(false)
	}
	vAssert(len(p.wireCtxMD) > 0, "C10.no-stream")
	for _, md := range p.wireCtxMD {
		g := md.Get("verif-general")
		n := md.Get("verif-node")
		vAssert(len(g) == 1 && g[0] == "g", "C10.general-metadata-missing")
		vAssert(len(n) == 1 && n[0] == "1", "C10.per-node-metadata-missing")
	}
	// C18: the stream contexts of the connection attempts made along the way are released:
	// at most the current stream's context is still registered with the node's context
	vAssert(vLiveChildren(w.nodes[0].channel.parentCtx) <= 1, "C18.stream-context-kept-after-its-stream-was-replaced")
	vReach("probe-ok")
}

var vErrOneWayReturned = errors.New("verif: one-way call returned")

func VerifC10Twin(maxEvents, withWorkload int) { VerifC10(maxEvents, withWorkload); vFail("C10.twin") }
