//go:build verif

package gorums

import (
	"hash"
)

// C14 — configurations are sets of distinct pooled nodes; sound algebra, no aliasing.
//
// Executed for real: NewRawConfiguration, every newConfig implementation, And, Except,
// WithoutNodes, WithNewNodes, WithNodeIDs/List/Map, AddNode, Node, Nodes, NodeIDs, Size, Equal,
// NewRawNode, NewRawNodeWithID, MultiSorter with the real sort.Sort; manager WithNoConnect.
// Symbolic: the node ids — for address lists the FNV hash is an uninterpreted function over the
// address (so colliding hashes are among the inputs), for maps the ids are free 32-bit values
// (duplicates included); which addresses appear in which list/map (with repetitions); the
// algebra operation and its operands; map iteration order.
// Stubbed: net.ResolveTCPAddr / TCPAddr.String (identity on canonical literals), hash/fnv
// (uninterpreted function H: address -> BV32; a 32-bit hash of unbounded inputs is not
// injective; the pool holds one pair that collides natively, see c14Addrs).

// The first two addresses really collide under FNV-32a (both hash to 1399806668), the others do
// not; c14HashAxioms makes the uninterpreted hash of the encoding agree with that much of the
// real function - H(0) == H(1), all other pairs distinct, the values themselves stay symbolic -
// so that a counterexample about colliding addresses replays against the real build.
//
// Entry 3 is a second SPELLING of entry 2 (an IPv4-mapped IPv6 literal; net.ResolveTCPAddr
// resolves both to "10.0.0.3:1003", natively and in the stub): an address may be written in
// several ways (localhost / 127.0.0.1, leading zeros, mapped literals), and a configuration
// must still list the node once.
var c14Addrs = []string{"10.0.1.16:5319", "10.0.2.47:8124", "10.0.0.3:1003", "[::ffff:10.0.0.3]:1003", "10.0.0.4:1004"}

// c14Canon: index of the pool entry an entry resolves to.
func c14Canon(a int) int {
	if a == 3 {
		return 2
	}
	return a
}

func c14HashAxioms() {
	if !vIsEngine() {
		return
	}
	h := func(i int) uint32 { return vUF32("fnv", uint64(i)) }
	vAssume(h(0) == h(1))
	vAssume(h(2) != h(0))
	vAssume(h(4) != h(0))
	vAssume(h(2) != h(4))
}

type vHash32 struct {
	hash.Hash32 // nil: only Write and Sum32 are used
	data        string
}

func (h *vHash32) Write(p []byte) (int, error) { h.data += string(p); return len(p), nil }
func (h *vHash32) Sum32() uint32 {
	for i, a := range c14Addrs {
		if a == h.data {
			return vUF32("fnv", uint64(i))
		}
	}
	return vUF32("fnv", 99)
}

//verif:stub hash/fnv.New32a
func vstubFnvNew32a() hash.Hash32 { return &vHash32{} }

type c14Ghost struct {
	mgr *RawManager
}

// c14CheckConfig: the invariants every successfully built configuration must satisfy.
func c14CheckConfig(mgr *RawManager, c RawConfiguration, tag string) {
	ids := c.NodeIDs()
	nodes := c.Nodes()
	vAssert(len(ids) == c.Size() && len(nodes) == c.Size(), "C14.size-agreement."+tag)
	vAssert(c.Size() > 0, "C14.empty-configuration-without-error."+tag)
	for i := range ids {
		vAssert(nodes[i].ID() == ids[i], "C14.nodes-ids-agreement."+tag)
		if i > 0 {
			vAssert(ids[i-1] < ids[i], "C14.not-strictly-sorted."+tag) // sorted and duplicate free
		}
		n, ok := mgr.Node(ids[i])
		vAssert(ok && n == nodes[i], "C14.node-not-pooled."+tag)
	}
}

// c14Resolved: the resolved form of a pool spelling.
func c14Resolved(addr string) string {
	for i, a := range c14Addrs {
		if a == addr {
			return c14Addrs[c14Canon(i)]
		}
	}
	return addr
}

func c14Has(c RawConfiguration, id uint32) bool {
	for _, n := range c {
		if n.id == id {
			return true
		}
	}
	return false
}

func c14Snapshot(c RawConfiguration) []*RawNode {
	return append([]*RawNode{}, c...)
}

func c14Unchanged(c RawConfiguration, snap []*RawNode, tag string) {
	vAssert(len(c) == len(snap), "C14.operand-modified."+tag)
	for i := range snap {
		vAssert(c[i] == snap[i], "C14.operand-modified."+tag)
	}
}

// c14Build creates a configuration from a list or a map over the address pool.
func c14Build(mgr *RawManager, tag string, maxEntries, pool int) (RawConfiguration, bool) {
	k := 1 + vChoice(tag+".entries", maxEntries)
	useMap := vChoice(tag+".kind", 2) == 1
	var picked []int
	for i := 0; i < k; i++ {
		picked = append(picked, vChoice(tag+".addr", pool))
	}
	if useMap {
		m := map[string]uint32{}
		mids := map[string]uint32{}
		for _, a := range picked {
			if _, dup := m[c14Addrs[a]]; dup {
				vAssume(false) // a Go map cannot hold an address twice
			}
			id := vUint32(tag + ".id")
			m[c14Addrs[a]] = id
			mids[c14Addrs[a]] = id
		}
		cfg, err := NewRawConfiguration(mgr, WithNodeMap(m))
		if err != nil {
			vReach("map-rejected")
			return nil, false
		}
		vReach("map-accepted")
		c14CheckConfig(mgr, cfg, "map")
		// one node per distinct id, carrying the (resolved) address of every entry that names
		// it - or the creation fails
		dids := map[uint32]bool{}
		for _, id := range mids {
			dids[id] = true
		}
		vAssert(cfg.Size() == len(dids), "C14.map-entries-merged")
		for a, id := range mids {
			n, ok := mgr.Node(id)
			vAssert(ok && n.Address() == c14Resolved(a) && c14Has(cfg, id), "C14.map-entry-lost")
		}
		return cfg, true
	}
	var l []string
	distinct := map[int]bool{}
	for _, a := range picked {
		l = append(l, c14Addrs[a])
		distinct[c14Canon(a)] = true
	}
	snapshot := append([]string{}, l...)
	cfg, err := NewRawConfiguration(mgr, WithNodeList(l))
	for i := range l {
		vAssert(l[i] == snapshot[i], "C14.argument-list-modified")
	}
	if err != nil {
		vReach("list-rejected")
		return nil, false
	}
	vReach("list-accepted")
	c14CheckConfig(mgr, cfg, "list")
	// distinct addresses are never silently mapped to the same node
	vAssert(cfg.Size() == len(distinct), "C14.addresses-merged-or-duplicated")
	for a := range distinct {
		found := false
		for _, n := range cfg {
			if n.Address() == c14Addrs[a] {
				found = true
			}
		}
		vAssert(found, "C14.address-lost")
	}
	return cfg, true
}

func VerifC14(maxEntries, withAlgebra, pool int) {
	c14HashAxioms()
	mgr := NewRawManager(WithNoConnect())
	c1, ok1 := c14Build(mgr, "c1", maxEntries, pool)
	if !ok1 {
		return
	}
	if withAlgebra == 0 {
		return
	}
	c2, ok2 := c14Build(mgr, "c2", maxEntries, pool)
	if !ok2 {
		return
	}
	// c1 must have survived the construction of c2 (shared pool, no aliasing)
	c14CheckConfig(mgr, c1, "c1-after-c2")
	s1, s2 := c14Snapshot(c1), c14Snapshot(c2)
	op := vChoice("op", 5)
	var r RawConfiguration
	var err error
	switch op {
	case 0:
		r, err = NewRawConfiguration(mgr, c1.And(c2))
	case 1:
		r, err = NewRawConfiguration(mgr, c1.Except(c2))
	case 2:
		r, err = NewRawConfiguration(mgr, c1.WithoutNodes(c2.NodeIDs()...))
	case 3:
		r, err = NewRawConfiguration(mgr, WithNodeIDs(append(c1.NodeIDs(), c2.NodeIDs()...)))
	case 4:
		r, err = NewRawConfiguration(mgr, WithNodeIDs([]uint32{vUint32("unknown-id")}))
	}
	c14Unchanged(c1, s1, "c1")
	c14Unchanged(c2, s2, "c2")
	// expected membership
	want := func(id uint32) bool {
		switch op {
		case 0, 3:
			return c14Has(c1, id) || c14Has(c2, id)
		case 1, 2:
			return c14Has(c1, id) && !c14Has(c2, id)
		}
		return false
	}
	if op == 4 {
		if err == nil {
			vAssert(r.Size() == 1, "C14.withnodeids-size")
			_, known := mgr.Node(r[0].id)
			vAssert(known, "C14.withnodeids-unregistered")
			c14CheckConfig(mgr, r, "ids")
		} else {
			vReach("unknown-id-rejected")
		}
		return
	}
	anyWanted := false
	for _, n := range append(c14Snapshot(c1), c2...) {
		if want(n.id) {
			anyWanted = true
		}
	}
	if err != nil {
		vReach("algebra-rejected")
		vAssert(!anyWanted, "C14.nonempty-result-rejected")
		return
	}
	vReach("algebra-accepted")
	c14CheckConfig(mgr, r, "algebra")
	vAssert(anyWanted, "C14.empty-configuration-without-error.algebra")
	for _, n := range r {
		vAssert(want(n.id), "C14.algebra-extra-member")
	}
	for _, n := range append(c14Snapshot(c1), c2...) {
		if want(n.id) {
			vAssert(c14Has(r, n.id), "C14.algebra-member-missing")
		}
	}
	vAssert(r.Equal(r) && (!r.Equal(c1) || len(r) == len(c1)), "C14.equal")
}

// VerifC14NewNodes: WithNewNodes yields the union of the old configuration and the new nodes.
func VerifC14NewNodes(maxEntries, pool int) {
	c14HashAxioms()
	mgr := NewRawManager(WithNoConnect())
	c1, ok := c14Build(mgr, "c1", maxEntries, pool)
	if !ok {
		return
	}
	s1 := c14Snapshot(c1)
	a := vChoice("newaddr", pool)
	r, err := NewRawConfiguration(mgr, c1.WithNewNodes(WithNodeList([]string{c14Addrs[a]})))
	c14Unchanged(c1, s1, "c1")
	if err != nil {
		vReach("newnodes-rejected")
		return
	}
	vReach("newnodes-accepted")
	c14CheckConfig(mgr, r, "newnodes")
	for _, n := range c1 {
		vAssert(c14Has(r, n.id), "C14.newnodes-lost-old-member")
	}
	found := false
	for _, n := range r {
		if n.Address() == c14Resolved(c14Addrs[a]) {
			found = true
		} else {
			vAssert(c14Has(c1, n.id), "C14.newnodes-extra-member")
		}
	}
	vAssert(found, "C14.newnodes-new-address-missing")
}

// VerifC14Algebra: the set algebra over a pool of registered nodes with symbolic, strictly
// increasing ids. Both operands are arbitrary non-empty subsets (symbolic bit masks), so the
// removed set may hold ids the left operand lacks, in any number and position - the inputs on
// which a merge-style or position-based difference goes wrong. WithoutNodes additionally
// receives its ids unsorted, repeated and with an id no node has.
func VerifC14Algebra(pool int) {
	mgr := NewRawManager(WithNoConnect())
	ids := make([]uint32, pool)
	m := map[string]uint32{}
	addrs := []string{"10.0.1.16:5319", "10.0.2.47:8124", "10.0.0.3:1003", "10.0.0.4:1004", "10.0.0.5:1005", "10.0.0.6:1006"}
	for i := 0; i < pool; i++ {
		ids[i] = vUint32("id")
		if i > 0 {
			vAssume(ids[i] > ids[i-1])
		}
		m[addrs[i]] = ids[i]
	}
	_, err := NewRawConfiguration(mgr, WithNodeMap(m))
	vAssert(err == nil, "C14.pool-rejected")
	pick := func(tag string) (RawConfiguration, int) {
		mask := 1 + vChoice(tag, (1<<uint(pool))-1)
		var sel []uint32
		for i := pool - 1; i >= 0; i-- { // handed over in decreasing order
			if mask>>uint(i)&1 == 1 {
				sel = append(sel, ids[i])
			}
		}
		c, err := NewRawConfiguration(mgr, WithNodeIDs(sel))
		vAssert(err == nil, "C14.withnodeids-rejected")
		c14CheckConfig(mgr, c, "subset")
		return c, mask
	}
	c1, m1 := pick("c1")
	c2, m2 := pick("c2")
	s1, s2 := c14Snapshot(c1), c14Snapshot(c2)
	op := vChoice("op", 3)
	var r RawConfiguration
	wantMask := m1 &^ m2
	switch op {
	case 0:
		r, err = NewRawConfiguration(mgr, c1.And(c2))
		wantMask = m1 | m2
	case 1:
		r, err = NewRawConfiguration(mgr, c1.Except(c2))
	case 2:
		unknown := vUint32("unknown-id")
		for _, id := range ids {
			vAssume(unknown != id)
		}
		rm := append([]uint32{unknown}, c2.NodeIDs()...)
		for i := len(c2) - 1; i >= 0; i-- { // and once more, in reverse
			rm = append(rm, c2[i].id)
		}
		r, err = NewRawConfiguration(mgr, c1.WithoutNodes(rm...))
	}
	c14Unchanged(c1, s1, "c1")
	c14Unchanged(c2, s2, "c2")
	if err != nil {
		vReach("algebra2-rejected")
		vAssert(wantMask == 0, "C14.nonempty-result-rejected")
		return
	}
	vReach("algebra2-accepted")
	c14CheckConfig(mgr, r, "algebra")
	vAssert(wantMask != 0, "C14.empty-configuration-without-error.algebra")
	for i := 0; i < pool; i++ {
		if wantMask>>uint(i)&1 == 1 {
			vAssert(c14Has(r, ids[i]), "C14.algebra-member-missing")
		} else {
			vAssert(!c14Has(r, ids[i]), "C14.algebra-extra-member")
		}
	}
	vAssert(r.Size() == len(r.NodeIDs()), "C14.size-agreement.algebra")
}

func VerifC14AlgebraTwin(pool int) {
	VerifC14Algebra(pool)
	vFail("C14.twin")
}

func VerifC14Twin(maxEntries, withAlgebra, pool int) {
	VerifC14(maxEntries, withAlgebra, pool)
	vFail("C14.twin")
}
func VerifC14NewNodesTwin(maxEntries, pool int) {
	VerifC14NewNodes(maxEntries, pool)
	vFail("C14.twin")
}
