//go:build verif

package gorums

import (
	"context"

	"google.golang.org/protobuf/reflect/protoreflect"
)

// C06 — each node gets exactly its own message; one-way calls never wait for handlers.

// VerifC06Payload (thin transport): for every call type that accepts a per-node function
// (quorum call, async, correctable, multicast with and without send-waiting), every per-node
// function (distinct message object per node, any skip set incl. all nodes) node i is queued
// exactly f(req, i) — or req itself without a function —, f is called with the node's own id
// and the caller's request, skipped nodes receive nothing and are neither waited for nor
// counted.
func VerifC06Payload(nmax int) {
	n := 1 + vChoice("n", nmax)
	cfg, nodes := vThinConfig(n, 1)
	kind := []int{ckQC, ckAsync, ckCorrectable, ckMulticast, ckMulticastNoWait}[vChoice("calltype", 5)]
	perNode := vChoice("perNode", 2) == 1
	skip := make([]bool, n)
	own := make([]*vMsg, n)
	targeted := 0
	for i := 0; i < n; i++ {
		if perNode && vChoice("skip", 2) == 1 {
			skip[i] = true
		} else {
			targeted++
		}
	}
	req := &vMsg{tok: 1}
	calls := make([]int, n)
	var fn func(protoreflect.ProtoMessage, uint32) protoreflect.ProtoMessage
	if perNode {
		fn = func(r protoreflect.ProtoMessage, id uint32) protoreflect.ProtoMessage {
			i := int(id) - 1
			vAssert(r == protoreflect.ProtoMessage(req), "C06.pernode-request-identity")
			vAssert(i >= 0 && i < n, "C06.pernode-unknown-node")
			calls[i]++
			if skip[i] {
				return (*vMsg)(nil)
			}
			own[i] = &vMsg{tok: 10 + i}
			return own[i]
		}
	}
	// every node records what it is sent, confirms one-way sends and answers two-way requests
	got := make([][]protoreflect.ProtoMessage, n)
	for i := 0; i < n; i++ {
		i := i
		go func() {
			for {
				r := <-nodes[i].channel.sendQ
				got[i] = append(got[i], r.msg.Message)
				id := r.msg.Metadata.MessageID
				if ckOneWay(kind) {
					if r.waitForSend() {
						nodes[i].channel.routeResponse(id, response{})
					}
				} else {
					nodes[i].channel.routeResponse(id, response{nid: nodes[i].id, msg: &vMsg{tok: 1000 + i}})
				}
			}
		}()
	}
	c := fsNewCall(kind, 1, 0) // quorum function never satisfied: waits for every targeted node
	returned := false
	var cerr error
	go func() {
		method := "verif.M"
		qd := QuorumCallData{Message: req, Method: method, QuorumFunction: c.qf, PerNodeArgFn: fn}
		c.req = req
		switch kind {
		case ckQC:
			_, cerr = cfg.QuorumCall(c.ctx, qd)
		case ckAsync:
			_, cerr = cfg.AsyncCall(c.ctx, qd).Get()
		case ckCorrectable:
			corr := cfg.CorrectableCall(c.ctx, CorrectableCallData{Message: req, Method: method, QuorumFunction: c.cqf, PerNodeArgFn: fn})
			<-corr.Done()
			_, _, cerr = corr.Get()
		case ckMulticast:
			cfg.Multicast(c.ctx, qd)
		case ckMulticastNoWait:
			cfg.Multicast(c.ctx, qd, WithNoSendWaiting())
		}
		returned = true
	}()
	vFreezeEnv()
	vQuiescent()
	vReach("calltype-" + ckNames[kind])
	// skipped nodes are not waited for: the call is over once the targeted nodes have answered
	vAssert(returned, "C06.waits-for-skipped-node")
	if !ckOneWay(kind) {
		qe, ok := cerr.(QuorumCallError)
		vAssert(ok && qe.cause == Incomplete, "C02.outcome")
		vAssert(qe.replies == targeted && len(qe.errors) == 0, "C06.skipped-node-counted")
	}
	for i := 0; i < n; i++ {
		if perNode {
			vAssert(calls[i] == 1, "C06.pernode-function-calls")
		}
		if skip[i] {
			vReach("skipped-node")
			vAssert(len(got[i]) == 0, "C06.skipped-node-got-message")
			continue
		}
		vAssert(len(got[i]) == 1, "C06.delivery-count")
		if perNode {
			vAssert(got[i][0] == protoreflect.ProtoMessage(own[i]), "C06.pernode-payload")
		} else {
			vAssert(got[i][0] == protoreflect.ProtoMessage(req), "C06.payload")
		}
	}
	if perNode && targeted == 0 {
		vReach("all-skipped")
	}
}

// VerifC06OneWay (full stack, 1 node): Unicast / Multicast, send-waiting or not, against a peer
// whose handlers never run (it accepts writes and never replies) or that does not even read.
// The call returns without waiting for any handler; with no-send-waiting also without waiting
// for the connection; the message is delivered at most once - exactly once when the peer reads.
func VerifC06OneWay() {
	reads := vChoice("peerReads", 2) == 1
	w := vMixed(1, 0, nil)
	p := w.peers[0]
	if !reads {
		p.stopReading()
	}
	kind := ckMulticast + vChoice("calltype", 4)
	c := fsNewCall(kind, 1, 0)
	go c.run(w, w.cfg)
	vFreezeEnv()
	vQuiescent()
	vReach("calltype-" + ckNames[kind])
	noWait := kind == ckMulticastNoWait || kind == ckUnicastNoWait
	if reads {
		vAssert(c.returned, "C06.oneway-waits-for-handler")
		vAssert(len(p.wire) == 1 && p.wire[0].Message == protoreflect.ProtoMessage(c.req), "C06.oneway-delivery")
	} else {
		vAssert(len(p.wire) == 0, "C06.oneway-delivery")
		if noWait {
			vReach("nowait-returns-without-connection")
			vAssert(c.returned, "C06.nowait-waits-for-connection")
		}
	}
	_ = context.Background
}

// VerifC06Sequence: "exactly once when the node is reachable and the context is not
// cancelled" holds for every call, whatever happened to the calls before it. A first call of
// any kind is given a context that ends at any point (before queuing, queued, while written,
// after); then - the peer is up and reading all the time - a one-way call of any of the four
// kinds with a live context must be written to the peer exactly once, with its payload, and
// return; a third one likewise (the node stays usable).
func VerifC06Sequence() {
	w := vMixed(1, 0, nil)
	p := w.peers[0]
	ka := vChoice("first", ckN)
	a := fsNewCall(ka, 1, 0)
	go a.run(w, w.cfg)
	a.cancel()
	vQuiescent()
	vReach("first-" + ckNames[ka])
	before := len(p.wire)
	vAssert(before <= 1, "C06.delivered-more-than-once")
	for i := 0; i < 2; i++ {
		kb := ckMulticast + vChoice("later", 4)
		b := fsNewCall(kb, 2+i, 0)
		go b.run(w, w.cfg)
		vQuiescent() // timers may run: waiting out a back-off is C10's subject, not delivery
		n := 0
		for _, m := range p.wire {
			if m.Message == protoreflect.ProtoMessage(b.req) {
				n++
			}
		}
		vAssert(n <= 1, "C06.delivered-more-than-once")
		if n == 0 {
			vFail("C06.one-way-call-not-delivered-to-a-reachable-node|C09.later-call-not-delivered")
		}
		vAssert(b.returned, "C06.oneway-waits-for-handler")
	}
	vReach("later-calls-delivered")
}

func VerifC06SequenceTwin() { VerifC06Sequence(); vFail("C06.twin") }

func VerifC06PayloadTwin(nmax int) { VerifC06Payload(nmax); vFail("C06.twin") }
func VerifC06OneWayTwin()          { VerifC06OneWay(); vFail("C06.twin") }
