//go:build verif

package gorums

import (
	"context"
	"errors"

	spb "google.golang.org/genproto/googleapis/rpc/status"
	"google.golang.org/grpc/codes"
	"google.golang.org/grpc/status"
	"google.golang.org/protobuf/reflect/protoreflect"
)

// C07 — minority failures are tolerated and every failing node is reported exactly once.
//
// Full stack (real sender/receiver/connect/reconnect/cancelPendingMsgs) with one puppet peer
// per node. Symbolic: per node the failure kind and — through the scheduler — the point of the
// call at which it strikes; the status code of a failing handler (32 bit); the threshold of
// the quorum function; call type (quorum call / async).

const (
	c07Healthy         = iota // replies
	c07NeverUp                // peer down when the manager is created and afterwards
	c07BreakBeforeSend        // stream broken before the request is written
	c07BreakAfterSend         // stream broken after the request was written, before a reply
	c07HandlerError           // handler fails: reply carries a status
	c07BreakAfterReply        // reply released, then the stream breaks (the reply may be lost)
	c07NKinds
	c07ThinError = c07NKinds // thin node answers with an error
)

type c07Ghost struct {
	n         int
	kind      []int
	stamped   []*vMsg
	code      []uint32
	acted     []bool
	returned  bool
	resp      protoreflect.ProtoMessage
	err       error
	quorumVal *vMsg
	inQF      bool
}

// second == 1: a second call (an RPC to the first full-stack node, never answered by the peer)
// overlaps the quorum call on that node, so that a connection failure finds one call waiting
// for its reply while another request is being written: whichever of the sender and the
// receiver goroutine notices the failure first, both calls must be completed.
func VerifC07(nFull, nThin, async, second int) {
	g := &c07Ghost{}
	g.n = nFull + nThin
	n := g.n
	g.kind = make([]int, n)
	g.stamped = make([]*vMsg, n)
	g.code = make([]uint32, n)
	g.acted = make([]bool, n)
	up := make([]bool, n)
	healthy := 0
	for i := 0; i < n; i++ {
		if i < nFull {
			g.kind[i] = vChoice("kind", c07NKinds)
		} else if vChoice("thinkind", 2) == 1 {
			g.kind[i] = c07ThinError
		}
		up[i] = g.kind[i] != c07NeverUp
		if g.kind[i] == c07Healthy {
			healthy++
		}
	}
	q := 1 + vChoice("threshold", n)
	w := vMixed(nFull, nThin, up[:nFull])
	req := &vMsg{tok: 1}
	d := QuorumCallData{Message: req, Method: "verif.M"}
	d.QuorumFunction = func(r protoreflect.ProtoMessage, replies map[uint32]protoreflect.ProtoMessage) (protoreflect.ProtoMessage, bool) {
		vAssert(!g.inQF, "C01.qf-reentered")
		g.inQF = true
		for id, m := range replies {
			i := int(id) - 1
			// never a reply for a node that failed; only the stamped reply of that very node
			vAssert(i >= 0 && i < n && (g.kind[i] == c07Healthy || g.kind[i] == c07BreakAfterReply || g.kind[i] == c07BreakBeforeSend), "C07.failed-node-in-reply-set")
			vAssert(g.stamped[i] != nil && m == protoreflect.ProtoMessage(g.stamped[i]), "C05.reply-not-genuine")
		}
		g.inQF = false
		if len(replies) >= q {
			g.quorumVal = &vMsg{tok: 77}
			return g.quorumVal, true
		}
		return nil, false
	}
	ctx := context.Background()
	var bgArrived *vArrived
	var bgErr error
	bgReturned := false
	if second == 1 {
		w.peers[0].behave = func(p *vPeer, a *vArrived) {
			if a.msg.Metadata.Method == "verif.bg" {
				bgArrived = a // held for ever
				return
			}
			vAtomic(1, p)
			p.arrived = append(p.arrived, a)
			vAtomicEnd()
		}
		go func() {
			_, bgErr = w.nodes[0].RPCCall(ctx, CallData{Message: &vMsg{tok: 55}, Method: "verif.bg"})
			bgReturned = true
		}()
	}
	go func() {
		var resp protoreflect.ProtoMessage
		var err error
		if async == 1 {
			resp, err = w.cfg.AsyncCall(ctx, d).Get()
		} else {
			resp, err = w.cfg.QuorumCall(ctx, d)
		}
		g.resp, g.err, g.returned = resp, err, true
	}()
	// the environment: every node performs its action, in an order and at points of the
	// call chosen by the engine
	for step := 0; step < n; step++ {
		i := vChoice("who", n)
		if g.acted[i] {
			vAssume(false)
		}
		g.acted[i] = true
		p := w.peers[i]
		if p == nil {
			// thin node: take the queued request, answer through the real routeResponse
			r, ok := vTake(w.nodes[i])
			if !ok {
				vAssume(false)
			}
			id := r.msg.Metadata.MessageID
			if g.kind[i] == c07Healthy {
				g.stamped[i] = &vMsg{tok: 1000 + i, node: w.nodes[i].id, call: id}
				w.nodes[i].channel.routeResponse(id, response{nid: w.nodes[i].id, msg: g.stamped[i]})
			} else {
				w.nodes[i].channel.routeResponse(id, response{nid: w.nodes[i].id, err: vErrBroken})
			}
			continue
		}
		switch g.kind[i] {
		case c07NeverUp:
			// nothing to do: the peer is down
		case c07BreakBeforeSend:
			if len(p.wire) > 0 {
				vAssume(false) // too late for this kind
			}
			p.breakStreams()
		case c07Healthy, c07BreakAfterSend, c07HandlerError, c07BreakAfterReply:
			a := p.take()
			if a == nil {
				vAssume(false) // the request has not been written yet
			}
			switch g.kind[i] {
			case c07Healthy, c07BreakAfterReply:
				g.stamped[i] = vStamp(p, a, 0)
				vAssert(p.reply(a, g.stamped[i], nil), "harness.inbox-full")
				if g.kind[i] == c07BreakAfterReply {
					p.breakStreams()
				}
			case c07HandlerError:
				g.code[i] = vUint32("code")
				vAssume(g.code[i] != 0)
				vAssert(p.reply(a, nil, &spb.Status{Code: int32(g.code[i]), Message: "verif handler failed"}), "harness.inbox-full")
			case c07BreakAfterSend:
				p.breakStreams()
			}
		}
	}
	vFreezeEnv()
	vQuiescent()
	// a node whose stream was broken before the request may have been reconnected to: it
	// then behaves like a healthy node and answers what was written to it
	for i := 0; i < n; i++ {
		if g.kind[i] == c07BreakBeforeSend && w.peers[i] != nil {
			if a := w.peers[i].take(); a != nil {
				vReach("reconnected-after-early-break")
				g.stamped[i] = vStamp(w.peers[i], a, 0)
				vAssert(w.peers[i].reply(a, g.stamped[i], nil), "harness.inbox-full")
			}
		}
	}
	vQuiescent()
	if second == 1 {
		if bgArrived != nil && bgArrived.st.isBroken {
			// written, never answered, and the stream it went out on has failed
			vReach("second-call-on-broken-stream")
			vAssert(bgReturned, "C07.waiting-call-not-completed-when-connection-breaks|C18.call-state-kept-after-its-node-failed")
		}
		if bgReturned {
			vAssert(bgErr != nil, "C05.reply-for-a-call-nobody-answered")
		}
	}
	// every node has produced an outcome: the call must be complete
	vAssert(g.returned, "C07.call-left-waiting|C18.call-state-kept-after-every-node-answered-or-failed")
	if healthy >= q {
		vReach("minority-failure-tolerated")
		vAssert(g.err == nil, "C07.minority-failure-not-tolerated")
	}
	if g.err == nil {
		vReach("success")
		vAssert(g.resp == protoreflect.ProtoMessage(g.quorumVal), "C01.returns-qf-value")
		return
	}
	vReach("failure")
	vAssert(errors.Is(g.err, Incomplete), "C02.outcome")
	qe := g.err.(QuorumCallError)
	vAssert(len(qe.errors)+qe.replies == n, "C02.accounting")
	seen := make([]bool, n)
	for _, ne := range qe.errors {
		i := int(ne.nodeID) - 1
		vAssert(i >= 0 && i < n, "C07.error-names-unknown-node")
		vAssert(!seen[i], "C07.node-reported-twice|C05.more-than-one-answer-per-node")
		seen[i] = true
		vAssert(g.kind[i] != c07Healthy, "C07.healthy-node-reported-as-failed")
		vAssert(ne.cause != nil, "C07.nil-cause")
		st, ok := status.FromError(ne.cause)
		if g.kind[i] == c07HandlerError {
			vReach("handler-error-reported")
			vAssert(ok && st.Code() == codes.Code(g.code[i]), "C07.handler-status-code")
			vAssert(st.Message() == "verif handler failed", "C07.handler-status-message")
		} else {
			vReach("connection-error-reported")
			vAssert(ok && st.Code() == codes.Unavailable, "C07.connection-error-not-unavailable")
		}
	}
}

func VerifC07Twin(nFull, nThin, async, second int) {
	VerifC07(nFull, nThin, async, second)
	vFail("C07.twin")
}
