#!/usr/bin/env python3
import json,sys
d=json.load(open(sys.argv[1]))
for f in d.get('failures') or []:
    print('FAIL',f['kind'],f['id'],f['pos'],f.get('detail',''),f.get('known'))
    print('    stack',(f.get('stack') or [])[:5])
    print('    model',f.get('model'))
    print('    decs',(f.get('decisions') or [])[-int(sys.argv[2]) if len(sys.argv)>2 else -10:])
print('known',{k:[(x['id'],x.get('detail','')[:200]) for x in v] for k,v in (d.get('known_hits') or {}).items()})
print('inconclusive',d.get('inconclusive')); print('reach',d.get('reach')); print('stats',d.get('stats')); print('solver',d.get('solver')); print('error',d.get('error')); print('wall',d.get('wall_s'),'load',d.get('load_s'))
