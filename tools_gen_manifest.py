#!/usr/bin/env python3
"""Regenerates MANIFEST.json from checks.json and manifest_text.json (per-property wording)."""
import json, os
ROOT = os.path.dirname(os.path.abspath(__file__))
checks = json.load(open(os.path.join(ROOT, "checks.json")))
text = json.load(open(os.path.join(ROOT, "manifest_text.json")))
props = [json.loads(l)["id"] for l in open(os.path.join(ROOT, "properties.jsonl"))]
m = {
 "version": 1,
 "setup_cmd": "cd /verif/engine && GOFLAGS=-mod=mod GOPROXY=off GOSUMDB=off GOTOOLCHAIN=local go build -o /verif/bin/symgo ./cmd/symgo && go build -o /verif/bin/vinstr ./cmd/vinstr",
 "hooks": {
  "guard": "verif",
  "enable": "no hook is committed to /repo: harness, stub and accessor files carry //go:build verif and are injected at load/build time (go/packages Overlay for the engine, go test -tags verif -overlay for native replay)",
  "baseline_off_cmd": "cd /repo && GOFLAGS=-mod=mod GOPROXY=off GOSUMDB=off go test -vet=off -count=1 -timeout 25m ./...",
  "source_commits": [],
  "add_only": True
 },
 "engines": [{
  "name": "symgo", "path": "/verif/engine",
  "serves_properties": [p for p in props if p in checks],
  "kind_free_text": "own symbolic executor for Go: go/ssa of /repo's current working tree (plus overlay harnesses) is interpreted with SMT terms for data, concrete heap per path, forking on solver-feasible branches; goroutines/channels/select/sync/atomics/context modelled, every scheduling decision explored (stateful search + sleep sets + persistent sets by heap reachability), a clock-free happens-before race monitor; assertions and branch feasibility discharged by z3 4.8.12 over a pipe (z3 5.1.0 and cvc5 as differential oracles on the runs marked diff); counterexamples replayed natively through go test -overlay: inputs from the model, schedules through yield points instrumented by engine/cmd/vinstr and a controller that grants them in the counterexample's order"
 }],
 "checks": [],
 "notes": text.get("_notes", ""),
 "not_applicable": []
}
for p in props:
    if p in checks:
        t = text[p]
        m["checks"].append({
         "property_id": p,
         "quick_cmd": "./check %s quick" % p,
         "thorough_cmd": "./check %s thorough" % p,
         "evidence_file": "/verif/evidence/%s.json" % p,
         "replay_cmd_template": "./check --replay {path}",
         "engine": "symgo",
         "level_claimed": {"category": checks[p].get("level", "model_checking"), "text": t["level_text"], "design_ref": t.get("design_ref", "DESIGN.md section 5 (%s)" % p)},
         "level_note": t["level_note"],
         "technique": t.get("technique", "solver-based bounded symbolic execution of the real Go code (SSA -> SMT, z3)")
        })
    else:
        m["not_applicable"].append({"property_id": p, "reason": text.get(p, {}).get("na_reason", "not claimed")})
json.dump(m, open(os.path.join(ROOT, "MANIFEST.json"), "w"), indent=1)
print("MANIFEST.json: %d checks, %d not applicable" % (len(m["checks"]), len(m["not_applicable"])))
