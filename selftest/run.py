#!/usr/bin/env python3
"""Translator validation: every VerifSelftest* program is run natively (go test -overlay) and in
the interpreter; the vObserve traces must be identical. Exit 0 iff all agree."""
import importlib.machinery, importlib.util, json, os, re, subprocess, sys
ROOT = os.path.dirname(os.path.dirname(os.path.abspath(__file__)))
loader = importlib.machinery.SourceFileLoader("check", os.path.join(ROOT, "check"))
spec = importlib.util.spec_from_loader("check", loader)
chk = importlib.util.module_from_spec(spec)
loader.exec_module(chk)

PROGRAMS = ["VerifSelftestInts", "VerifSelftestSlices", "VerifSelftestMaps", "VerifSelftestStrings", "VerifSelftestStructs",
            "VerifSelftestControl", "VerifSelftestConcurrency", "VerifSelftestRepo"]

def main():
    chk.ensure_bin()
    bad = 0
    for prog in PROGRAMS:
        run = {"entry": prog, "args": []}
        res = chk.run_symgo(run, "selftest", [], 0, extra=["-samples", "1"])
        paths = res.get("observation_paths") or []
        problems = (res.get("failures") or []) or (res.get("inconclusive") or []) or res.get("error")
        lines, out = chk.native_run(run, [1], tag="selftest")
        nat = [l[len("VERIF-OBS "):] for l in out.splitlines() if l.startswith("VERIF-OBS ")]
        same = len(nat) > 0 and len(paths) > 0 and all(p == nat for p in paths)
        status = "OK" if same and not problems else "MISMATCH"
        print("%-28s %s  (%d observations, %d interpreter paths)" % (prog, status, len(nat), len(paths)))
        if status != "OK":
            bad += 1
            for p in paths:
                if p != nat:
                    for i in range(max(len(nat), len(p))):
                        a = nat[i] if i < len(nat) else "-"
                        b = p[i] if i < len(p) else "-"
                        if a != b:
                            print("     native: %-40s interpreter: %s" % (a, b))
                    break
            if problems:
                print("     interpreter problems:", str(problems)[:800])
            if not nat:
                print(out[-800:])
    sys.exit(1 if bad else 0)

if __name__ == "__main__":
    main()
