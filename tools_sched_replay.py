#!/usr/bin/env python3
"""development aid: replays a failure (or known hit) of a symgo result file natively with its schedule.
usage: tools_sched_replay.py <result.json> <entry> <args,comma> [known:<finding>|fail:<index>]"""
import importlib.machinery, importlib.util, json, os, sys
ROOT = os.path.dirname(os.path.abspath(__file__))
loader = importlib.machinery.SourceFileLoader("check", os.path.join(ROOT, "check"))
spec = importlib.util.spec_from_loader("check", loader); chk = importlib.util.module_from_spec(spec); loader.exec_module(chk)
res = json.load(open(sys.argv[1])); entry = sys.argv[2]; args = [int(a) for a in sys.argv[3].split(",") if a != ""]
sel = sys.argv[4] if len(sys.argv) > 4 else "fail:0"
kind, key = sel.split(":")
f = res["known_hits"][key][0] if kind == "known" else res["failures"][int(key)]
print("failure:", f["kind"], f["id"], "steps:", len(f.get("schedule") or []))
run = {"entry": entry, "args": args}
table = chk.replay_table_from(f)
lines, out = chk.native_run(run, [1], replay_table=table, tag="schedreplay", schedule={"schedule": f["schedule"], "gids": f["gids"]}, timeout=60)
print("\n".join(l for l in out.splitlines() if l.startswith(("VERIF", "SCHED", "---", "FAIL", "ok", "panic", "VINSTR", "#", "/"))) [:6000])
