#!/usr/bin/env python3
"""development aid: runs every thorough-tier run that is deeper than the quick tier once with a wall
cap and half the cores, and reports which finish cleanly (-> out/probe_thorough.json)."""
import importlib.machinery, importlib.util, json, os, sys, time
ROOT = os.path.dirname(os.path.abspath(__file__))
loader = importlib.machinery.SourceFileLoader("check", os.path.join(ROOT, "check"))
spec = importlib.util.spec_from_loader("check", loader); chk = importlib.util.module_from_spec(spec); loader.exec_module(chk)
cap = sys.argv[1] if len(sys.argv) > 1 else "8m"
workers = int(sys.argv[2]) if len(sys.argv) > 2 else 8
d = json.load(open(os.path.join(ROOT, "checks.json")))
seen, out = set(), {}
outp = os.path.join(ROOT, "out", "probe_thorough.json")
if os.path.exists(outp):
    out = json.load(open(outp))
for pid, spec_ in d.items():
    if not isinstance(spec_, dict) or "thorough" not in spec_:
        continue
    findings = [f for f in chk.known_findings() if f.get("property") == pid or pid in f.get("properties", [])]
    open_ids = [f["id"] for f in findings if f.get("status") == "open"]
    for r in spec_["thorough"]:
        if r.get("native_only") or any(x["entry"] == r["entry"] and x.get("args") == r.get("args") for x in spec_["quick"]):
            continue
        key = "%s%s%s" % (r["entry"], r.get("args"), "race" if r.get("race") else "")
        if key in seen or key in out:
            continue
        seen.add(key)
        run = dict(r); run["wall"] = cap; run["workers"] = workers
        t0 = time.time()
        res = chk.run_symgo(run, "probe", open_ids, 0)
        st = res.get("stats") or {}
        out[key] = {"pid": pid, "wall": round(time.time() - t0, 1), "states": st.get("states"), "failures": [(f["kind"], f["id"]) for f in res.get("failures") or []][:5],
                    "inconclusive": (res.get("inconclusive") or [])[:3], "error": res.get("error"), "known": list((res.get("known_hits") or {}).keys())}
        print(key, out[key], flush=True)
        json.dump(out, open(outp, "w"), indent=1)
