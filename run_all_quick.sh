#!/bin/bash
# runs every registered quick check in sequence (development aid)
cd /verif
for p in $(python3 -c "import json; print(' '.join(c['property_id'] for c in json.load(open('MANIFEST.json'))['checks']))"); do
  s=$(date +%s); out=$(./check $p quick 2>&1 | tail -3 | tr '\n' ' ' | cut -c1-400); rc=$?
  echo "$p $(( $(date +%s)-s ))s :: $out"
done
