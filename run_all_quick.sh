#!/bin/bash
# runs every registered quick check in sequence (development aid); full outputs in out/allquick/
cd /verif; mkdir -p out/allquick
for p in ${@:-$(python3 -c "import json; print(' '.join(c['property_id'] for c in json.load(open('MANIFEST.json'))['checks']))")}; do
  s=$(date +%s); ./check $p quick > out/allquick/$p.out 2>&1; rc=$?
  echo "$p rc=$rc $(( $(date +%s)-s ))s :: $(grep -c ^VIOLATION out/allquick/$p.out) violations, $(grep -c ^INCONCLUSIVE out/allquick/$p.out) inconclusive, $(grep -c ^KNOWN-FINDING out/allquick/$p.out) known :: $(tail -1 out/allquick/$p.out | cut -c1-160)"
done
